"""C11: membership lifecycle (left / unreachable / recovered / expired nodes).
Model: Routing.tla over Gossip.tla with leave, crash, suspicion flips, liveness sweeps and expiry;
binding: engine G with a settable failure detector, RemoveExpiredAt and the real syncer + routing table."""
import gossip as G
import vp
from checks import gossip_family, prop, f4_known_generic

C11_INV = ["KeysUnique", "ArmedConsistent", "LocalNeverFlagged", "LeftOnlyByOwner", "LeftFlagMatches",
           "StatusTracks", "NoOrphans", "StaysForgotten"]
C11_PROPS = ["LeftSticky", "OwnStateOnlyLocal"]
C11_TRACE_INV = ["KeysUnique", "ArmedConsistent", "LocalNeverFlagged", "LeftOnlyByOwner", "LeftFlagMatches",
                 "StatusTracks", "NoOrphans", "NoStepViolation"]


def c11_plan(tier):
    rc = dict(G.OBS_ROUTING, EpUsed={"endpoint:e1"}, MaxCount=1, Key={"k1"}, Val={"x"})
    feats = {"leave", "lose", "expire", "liveness"}
    if tier == "quick":
        return rc, {
            "mc": G.consts(MaxVer=4, MaxSlots=1, Features=feats, Crashers={"a"}),
            "mc2": G.consts(MaxVer=4, Features={"leave", "lose", "expire"}, Crashers={"a"}),
            "covers": [G.consts(MaxVer=2, MaxSlots=1, Features={"lose", "expire", "liveness"}, Crashers={"a"},
                                Budgets={99}),
                       G.consts(MaxVer=3, MaxSlots=1, Features={"leave", "expire"}, Budgets={99})],
            "sim": (G.consts(Node={"a", "b", "c"}, MaxVer=5, MaxSlots=3, Writers={"a", "c"}, Crashers={"c"},
                             Features=feats | {"compact", "dup"}, Budgets={2, 3, 99}), 240, 60),
            "walks": (1500, 90),
        }
    return rc, {
        # (bounds fitted to measured state counts: MaxVer=5 with compaction is 34 M distinct states / 35 min,
        # MaxVer=4 is 10.9 M / 11 min on a loaded machine)
        "mc": G.consts(MaxVer=4, Features=feats | {"compact"}, Crashers={"a"}),
        "mc_timeout": 3000,
        # (suspicion flips among three nodes do not finish within the hour: the 3-node model is the relay of a
        # leave / crash + expiry with two datagrams in flight, 2.3 M distinct states / 4 min; suspicion is
        # exhaustive in the 2-node model above and sampled in the walks)
        "mc2": G.consts(Node={"a", "b", "c"}, MaxVer=3, MaxSlots=2, Writers={"a"}, Crashers={"a"},
                        Features={"leave", "expire", "lose"}, Budgets={99}),
        "covers": [G.consts(MaxVer=4, MaxSlots=1, Features=feats, Crashers={"a"})],
        "sim": (G.consts(Node={"a", "b", "c", "d"}, MaxVer=6, MaxSlots=4, Writers={"a", "c"}, Crashers={"c", "d"},
                         Features=feats | {"compact", "dup", "shuffle"}, Budgets={2, 3, 99}), 3000, 80),
        "walks": (15000, 110),
    }


F2_TEXT = ("F2 a crashed node that a removed by expiry is created again by ApplyDigest from b's digest "
           "(b still holds it, left=false): it is never forgotten while two survivors keep gossiping "
           "(site=ApplyDigest sig=view-created(expiredBy,gone,digest.left=false))")


def f2_known(chk):
    known, _ = vp.known_findings()
    if not any(k.get("id") == "F2" and k.get("property") == "C11" for k in known):
        return
    beh = [
        ["UpsertLocal", "c", "k1", "x"],
        ["StartRound", "a", "c", 0], ["RecvDigest", 1, False, 0, False], ["RecvDelta", 1, False], ["Lose", 2],
        ["StartRound", "b", "c", 0], ["RecvDigest", 1, False, 0, False], ["RecvDelta", 1, False], ["Lose", 2],
        ["Crash", "c"],
        ["SetSuspect", "a", "c", True], ["UpdateLiveness", "a"], ["RemoveExpired", "a", 1],
        # b has not expired c yet; its digest names c with left=false
        ["StartRound", "b", "a", 0], ["RecvDigest", 1, False, 0, False],
    ]
    sched = {"nodes": ["a", "b", "c"], "initKnown": True, "behaviours": [beh]}
    with vp.Scratch("f2") as d:
        tp, stats = G.run_geng(d, sched, chk.seed, name="f2")
        v = G.validate(chk, tp, ["a", "b", "c"], invariants=["KeysUnique"], label="f2-signature")
        v2 = G.validate(chk, tp, ["a", "b", "c"], invariants=["StaysForgotten"], label="f2-harm")
    chk.traces += 1
    chk.evaluations += stats.get("steps", 0)
    if v.f2 > 0 and v2.violation and v2.violation["invariant"] == "StaysForgotten":
        chk.known("F2", F2_TEXT)
    else:
        chk.notes["f2_not_reproduced"] = True


def peer_selection(chk):
    """The code's own periodic round (gossipRound): 300 rounds of one node in a five-node cluster in which one
    peer left, two are unreachable (one of them also left) and one is live; TLC judges every round
    (PeerSelection: one live peer if any, one unreachable peer if any, nobody else) and the whole run
    (PeerSelectionFair: every candidate was addressed at least once - an unreachable node keeps being probed,
    which is what lets it be restored when it is heard from again)."""
    from checks import run_schedules
    nodes = ["a", "b", "c", "d", "e"]
    behs = []
    for variant in range(3):
        beh = [["UpsertLocal", "b", "k1", "x"], ["Closure", -1, 30],
               ["SetSuspect", "a", "c", True], ["SetSuspect", "a", "d", True], ["UpdateLiveness", "a"]]
        if variant >= 1:
            beh += [["LeaveLocal", "e"], ["LeaveStream", "e", "a"]]
        if variant == 2:
            beh += [["LeaveLocal", "d"], ["LeaveStream", "d", "a"], ["SetSuspect", "a", "b", True],
                    ["UpdateLiveness", "a"]]
        beh.append(["SelectionStats", "a", 300])
        behs.append(beh)
    sched = {"nodes": nodes, "initKnown": True, "streams": True, "behaviours": behs}
    v, st = run_schedules(chk, sched, "peer-selection", nodes, invariants=["KeysUnique", "NoStepViolation"])
    if st.get("by_op", {}).get("SelectionEnd", 0) != 3 or st.get("by_op", {}).get("GossipRound", 0) < 900:
        raise vp.Machinery("vacuous run: the peer selection scenarios did not execute")


@prop("C11")
def c11(chk):
    chk.rule = ("behaviours = transition cover / simulations / random schedules over leave, crash, suspicion "
                "flips (settable failure detector), liveness sweeps, expiry sweeps (RemoveExpiredAt with the k "
                "oldest deadlines due) and gossip legs, executed on real gossip nodes with the real syncer and "
                "routing table; judged by TLC: LeftSticky, LeftOnlyByOwner, LeftFlagMatches, "
                "LeftDigestNeverCreates, LocalNeverFlagged, LivenessApplied, ExpiryRemoves, OnlyDueRemoved, "
                "NoSilentRemoval, StatusTracks (routing status follows the flags), LookupSound")
    chk.assumptions = [
        "suspicion is an abstract per-pair boolean set by the schedule (C12 ties it to arrivals)",
        "re-learning an expired node that is gone is known finding F2 when it happens through a digest entry "
        "with left=false or through a delta; any other way (e.g. a left=true digest entry) is a violation",
    ]
    rc, plan = c11_plan(chk.tier)
    gossip_family(chk, C11_INV, C11_PROPS, C11_TRACE_INV, module="Routing", spec="RSpec", extra_consts=rc,
                  routing=True, plan=plan,
                  require_ops=["LeaveLocal", "RecvDelta", "RemoveExpired", "UpdateLiveness", "SetSuspect", "Crash"])
    # the finding must still be reachable in the unmasked model, otherwise the entry is stale
    um = dict(plan["sim"][0], **rc)
    um.update({"Node": {"a", "b", "c"}, "Crashers": {"c"}, "MaskF2": False, "MaxVer": 2, "MaxSlots": 1,
               "Budgets": {99},
               "Features": {"lose", "expire", "liveness"}, "Writers": {"c"}})
    res = G.model_check(chk, "C11-unmasked-F2", um, ["NoRelearn"], [], module="Routing", spec="RSpec",
                        expect_violation="NoRelearn", timeout=900)
    chk.notes["f2_reachable_in_unmasked_model"] = res.violated == "NoRelearn"
    peer_selection(chk)
    f2_known(chk)
    f4_known_generic(chk, "C11")
