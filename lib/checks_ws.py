"""C07: tunnelled connections are faithful byte streams with close propagation
(WsConn.tla + cmd/weng over a bare websocket pair and through real piko nodes)."""
import engine
import gossip as G
import vp
from checks import prop, REPLAYERS

WS_INV = ["Conservation", "NeverZeroWithoutError", "ErrorOnlyAtEndOfStream"]
TRACE_CONSTS = {"Sizes": {0}, "Bufs": {1}, "MaxBytes": 0, "MaxMsgs": 0}


@prop("C07")
def c07(chk):
    quick = chk.tier == "quick"
    chk.rule = ("(1) WsConn.tla: every interleaving of writes (message sizes incl. 0), reads (buffer sizes incl. 1) "
                "and close within the byte bound: Conservation (no loss, no duplication), NeverZeroWithoutError, "
                "ErrorOnlyAtEndOfStream, and all written bytes eventually delivered under fair reads; (2) a "
                "complete transition cover of a bounded model replayed on a bare pair of pkg/websocket connections "
                "and on real tunnels (dialer -> node -> listener; dialer -> node a -> node b -> listener; TCP client -> "
                "piko forward -> node a -> node b -> agent TCP proxy -> local TCP service); seeded "
                "random schedules in both directions with sizes up to 70 kB and 1-byte reads; every Write/Read/"
                "Close judged by TLC (TraceWs.tla): offsets proven by content, n within the buffer, nothing before "
                "it was written, zero only with an error, end-of-stream (not a timeout) after the peer closed")
    chk.assumptions = ["payload byte = f(stream offset), compared by the harness; TLC sees offsets",
                       "bytes in flight when an end closes need not be delivered", "delivery awaited for at most 3 s"]
    mc = {"Sizes": {0, 1, 2, 3}, "Bufs": {1, 2, 4}, "MaxBytes": 5 if quick else 7, "MaxMsgs": 3 if quick else 4}
    with vp.Scratch("mc-C07") as d:
        vp.copy_specs(d, ["WsConn"])
        res = vp.run_tlc(d, "WsConn", vp.cfg_text("Spec", mc, WS_INV, ["AllDeliveredEventually"], None), timeout=2400)
    chk.add_tlc(res, "C07-model")
    if res.error or res.violated or res.queue != 0:
        raise vp.Machinery("WsConn.tla failed (%s):\n%s" % (res.violated, res.out[-3000:]))
    cc = {"Sizes": {0, 1, 3}, "Bufs": {1, 2}, "MaxBytes": 4, "MaxMsgs": 2}
    beh, info = G.gen_cover(chk, "C07-cover", cc, module="WsConn", view=None, max_len=30)
    chk.notes["cover"] = info
    chk.exhaustive = info["uncovered_edges"] == 0
    ops = {}
    v, st = engine.run(chk, "weng", {"paths": ["pair"], "behaviours": beh}, "cover-pair", "TraceWs", TRACE_CONSTS,
                       ["NoStepViolation"], "weng-trace", what="the real connections", strip=("walks",))
    for k, n in st["by_op"].items():
        ops[k] = ops.get(k, 0) + n
    v, st = engine.run(chk, "weng", {"paths": ["tunnel1"], "behaviours": beh[: (40 if quick else 2000)]},
                       "cover-tunnel", "TraceWs", TRACE_CONSTS, ["NoStepViolation"], "weng-trace",
                       what="the real connections", strip=("walks",), timeout=3400)
    for k, n in st["by_op"].items():
        ops[k] = ops.get(k, 0) + n
    v, st = engine.run(chk, "weng", {"paths": ["chain"], "behaviours": beh[: (25 if quick else 1000)]},
                       "cover-chain", "TraceWs", TRACE_CONSTS, ["NoStepViolation"], "weng-trace",
                       what="the real connections", strip=("walks",), timeout=3400)
    for k, n in st["by_op"].items():
        ops[k] = ops.get(k, 0) + n
    # both directions at the same time, in volume (flow-control stalls, buffers shared between directions)
    mib = 1 << 20
    bulk = [[["Bulk", 3 * mib, 32768]], [["Bulk", mib, 100000]], [["Bulk", 300000, 4096]]]
    if not quick:
        bulk += [[["Bulk", 32 * mib, 65536]], [["Bulk", 8 * mib, 1 << 20]], [["Bulk", 2 * mib, 1000]]] * 3
    v, st = engine.run(chk, "weng", {"paths": ["pair", "tunnel1", "tunnel2", "chain"], "behaviours": bulk},
                       "bulk", "TraceWs", TRACE_CONSTS, ["NoStepViolation"], "weng-trace",
                       what="the real connections", strip=("walks",), timeout=3400)
    for k, n in st["by_op"].items():
        ops[k] = ops.get(k, 0) + n
    # a burst followed at once by a close, read slowly at the other end: what was accepted still arrives
    burst = [[["Burst", "a", 4 * mib]], [["Burst", "b", 4 * mib]], [["Burst", "a", 300000]], [["Burst", "b", 70000]]]
    if not quick:
        burst = burst * 5 + [[["Burst", "a", 32 * mib]], [["Burst", "b", 32 * mib]]]
    v, st = engine.run(chk, "weng", {"paths": ["pair", "tunnel1", "tunnel2", "chain"], "behaviours": burst},
                       "burst-close", "TraceWs", TRACE_CONSTS, ["NoStepViolation"], "weng-trace",
                       what="the real connections", strip=("walks",), timeout=3400)
    for k, n in st["by_op"].items():
        ops[k] = ops.get(k, 0) + n
    walks = {"paths": ["pair", "tunnel1", "tunnel2", "chain"], "walks": 12 if quick else 3000, "depth": 60}
    v, st = engine.run(chk, "weng", walks, "walks", "TraceWs", TRACE_CONSTS, ["NoStepViolation"], "weng-trace",
                       what="the real connections", strip=("walks",), timeout=3400)
    for k, n in st["by_op"].items():
        ops[k] = ops.get(k, 0) + n
    chk.notes["executed_calls_by_action"] = ops
    for need in ("W", "R", "Close", "Bulk", "Burst"):
        if ops.get(need, 0) == 0:
            raise vp.Machinery("vacuous run: no " + need)


def _replay(chk, obj):
    chk.seed = obj.get("seed", chk.seed)
    fs = dict(obj.get("full_sched", {}))
    if obj["sched"].get("behaviours") and not fs.get("walks"):
        fs = obj["sched"]
    v, st = engine.run(chk, "weng", fs, "replay", "TraceWs", TRACE_CONSTS, ["NoStepViolation"], "weng-trace",
                       what="the real connections", strip=())
    print("replay: not reproduced (%d calls)" % st.get("steps", 0))


REPLAYERS["weng-trace"] = _replay
