"""C19: rebalancing sheds only when imbalanced and never faster than the shed rate
(Rebalance.tla + cmd/reng: one real Rebalance() per configuration with real yamux sessions)."""
import engine
import gossip as G
import vp
from checks import prop, REPLAYERS

RB_INV = ["ShedOnlyIfAllGuards", "AtMostCeilRateAvgAndAtLeastOne", "NeverMoreThanOpen",
          "AtOrBelowAverageShedsNothing", "ShedsWhenImbalanced"]
RB_TRACE = ["ObsShedOnlyIfAllGuards", "ObsAtMostCeilRateAvgAndAtLeastOne", "ObsNeverMoreThanOpen",
            "ObsAtOrBelowAverageShedsNothing", "ObsAverage"]
TRACE_CONSTS = {"MaxLocal": 0, "MaxOthers": 0, "OtherConns": {0}, "Statuses": {"active"}, "Thresholds": set(),
                "Rates": set(), "Mins": {0}}

QT = [[0, 1], [1, 8], [1, 2], [1, 1], [2, 1]]
QR = [[0, 1], [1, 128], [1, 8], [1, 2], [1, 1]]
TT = [[0, 1], [1, 16], [1, 8], [1, 4], [1, 2], [1, 1], [2, 1], [3, 2]]
TR = [[0, 1], [1, 256], [1, 128], [1, 16], [1, 8], [1, 4], [1, 2], [3, 4], [1, 1]]
STAT = ["active", "unreachable", "left"]


def model(chk, label, c, timeout=2400):
    with vp.Scratch("mc-" + label) as d:
        vp.copy_specs(d, ["Rebalance", "MC_Rebalance"])
        cfg = vp.cfg_text("Spec", c, RB_INV, [], None)
        res = vp.run_tlc(d, "MC_Rebalance", cfg, timeout=timeout)
    chk.add_tlc(res, label)
    if res.error or res.violated or res.queue != 0:
        raise vp.Machinery("Rebalance.tla model %s failed (%s):\n%s" % (label, res.violated, res.out[-3000:]))


@prop("C19")
def c19(chk):
    quick = chk.tier == "quick"
    chk.rule = ("(1) Rebalance.tla: every configuration (local connections x other nodes with status and "
                "connections x threshold x shed rate x minimum) as an initial state, Shed computed in exact "
                "arithmetic and checked against every clause; (2) the same grid (quick: a seeded sample plus a "
                "small complete grid) executed for real: real upstream.Server with that many real yamux sessions, "
                "real cluster.State with those nodes, one Rebalance() call, sessions closed counted; TLC "
                "(TraceRb.tla) evaluates the clauses on the observed count and the observed AvgConns()")
    chk.assumptions = ["thresholds and rates are dyadic fractions (exact in float64); rounding at other values is "
                       "not examined", "the cluster's local endpoint count equals the open sessions",
                       "Rebalance() is only called when the threshold is non-zero (server.go starts it only then)"]
    if quick:
        model(chk, "C19-grid", {"MaxLocal": 8, "MaxOthers": 2, "OtherConns": {0, 1, 3, 8}, "Statuses": set(STAT),
                                "Thresholds": vp.Sub("QThresholds"), "Rates": vp.Sub("QRates"), "Mins": {0, 1, 5}})
    else:
        model(chk, "C19-grid", {"MaxLocal": 12, "MaxOthers": 3, "OtherConns": {0, 1, 2, 5, 12},
                                "Statuses": set(STAT), "Thresholds": vp.Sub("TThresholds"),
                                "Rates": vp.Sub("TRates"), "Mins": {0, 1, 5, 50}}, timeout=3000)
    small = {"maxLocal": 4, "maxOthers": 1, "otherConns": [0, 1, 4], "statuses": STAT, "thresholds": QT,
             "rates": QR, "mins": [0, 1, 3]}
    v, st = engine.run(chk, "reng", small, "small-grid", "TraceRb", TRACE_CONSTS, RB_TRACE, "reng-trace",
                       what="the real Rebalance()", strip=("sample",))
    outcomes = st.get("distinct_outcomes", 0)
    if quick:
        big = {"maxLocal": 12, "maxOthers": 3, "otherConns": [0, 1, 2, 5, 12], "statuses": STAT,
               "thresholds": TT, "rates": TR, "mins": [0, 1, 5, 50], "sample": 1500}
    else:
        big = {"maxLocal": 8, "maxOthers": 2, "otherConns": [0, 1, 3, 8], "statuses": STAT, "thresholds": QT,
               "rates": QR, "mins": [0, 1, 5]}
    v, st = engine.run(chk, "reng", big, "grid", "TraceRb", TRACE_CONSTS, RB_TRACE, "reng-trace",
                       what="the real Rebalance()", strip=("sample",))
    outcomes += st.get("distinct_outcomes", 0)
    if not quick:
        samp = {"maxLocal": 12, "maxOthers": 3, "otherConns": [0, 1, 2, 5, 12], "statuses": STAT,
                "thresholds": TT, "rates": TR, "mins": [0, 1, 5, 50], "sample": 60000}
        v, st = engine.run(chk, "reng", samp, "sample", "TraceRb", TRACE_CONSTS, RB_TRACE, "reng-trace",
                           what="the real Rebalance()", strip=("sample",))
        outcomes += st.get("distinct_outcomes", 0)
    chk.notes["distinct_observed_outcomes"] = outcomes
    chk.nontrivial = outcomes
    chk.rule += "; distinct_nontrivial = distinct observed (open, average, shed) outcomes"


REPLAYERS["reng-trace"] = lambda chk, obj: engine.replay(chk, obj, "the real Rebalance()")
