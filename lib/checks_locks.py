"""C20: concurrent operation never deadlocks, panics or races; consistency at quiescence.
Engine L: the mutex call sites of the anchored files are instrumented AT CHECK TIME (go/ast rewriter +
`go build -overlay`, nothing is committed to /repo), a stress run on a real in-process cluster records the
lock paths every goroutine executes; Locks.tla + TLC decide deadlock freedom for every combination and
interleaving of the observed paths; a TLC deadlock is turned into a gated real schedule and must actually
hang to be reported."""
import json
import os
import re
import subprocess

import gossip as G
import tlaparse
import vp
from checks import prop, REPLAYERS

FILES = [("server/upstream/manager.go", "manager"), ("server/cluster/state.go", "cluster"),
         ("server/gossip/syncer.go", "syncer"), ("pkg/gossip/state.go", "gstate"),
         ("pkg/gossip/failuredetector.go", "fd"), ("server/upstream/server.go", "upsrv"),
         ("pkg/gossip/gossip.go", "gossip")]


def build_leng(workdir):
    vp.build_harness(["astrw"])
    gen = os.path.join(workdir, "gen")
    os.makedirs(gen, exist_ok=True)
    replace = {}
    sites = 0
    for rel, prefix in FILES:
        src = os.path.join(vp.REPO, rel)
        dst = os.path.join(gen, rel.replace("/", "_"))
        rc, out = vp.sh([os.path.join(vp.HBIN, "astrw"), src, dst, prefix])
        if rc != 0:
            raise vp.Machinery("instrumenting %s failed:\n%s" % (rel, out[-2000:]))
        m = re.search(r"instrumented sites: (\d+)", out)
        n = int(m.group(1)) if m else 0
        sites += n
        if n > 0:
            replace[src] = dst
    vt = os.path.join(workdir, "vtrace.go")
    with open(vt, "w") as f:
        f.write(open(os.path.join(vp.HARNESS, "lockcmd", "vtrace_src", "vtrace.go.txt")).read())
    replace[os.path.join(vp.REPO, "pkg", "vtrace", "vtrace.go")] = vt
    ov = os.path.join(workdir, "overlay.json")
    json.dump({"Replace": replace}, open(ov, "w"))
    out = os.path.join(vp.HBIN, "leng")
    rc, o = vp.sh(["go", "build", "-tags", "verif vtrace", "-race", "-overlay", ov, "-o", out, "./lockcmd/leng"],
                  cwd=vp.HARNESS, env=vp.go_env(), timeout=1800)
    if rc != 0:
        raise vp.Machinery("building the instrumented lock engine failed:\n" + o[-4000:])
    return out, sites


def run_leng(chk, binary, workdir, name, seconds, gate=None):
    sp = os.path.join(workdir, name + ".sched.json")
    tp = os.path.join(workdir, name + ".ndjson")
    stp = os.path.join(workdir, name + ".stats.json")
    pp = os.path.join(workdir, name + ".paths.json")
    json.dump({"seconds": seconds, "nodes": 3, "gate": gate or [], "pathsTo": pp}, open(sp, "w"))
    try:
        p = subprocess.run([binary, "-schedules", sp, "-out", tp, "-stats", stp, "-seed", str(chk.seed)],
                           stdout=subprocess.PIPE, stderr=subprocess.STDOUT, text=True, timeout=seconds + 600)
    except subprocess.TimeoutExpired:
        return None, None, {"crash": "the stress driver itself did not finish"}
    out = p.stdout
    if "DATA RACE" in out or "panic:" in out or "fatal error:" in out or "HANG:" in out:
        return None, None, {"crash": out[-6000:]}
    if p.returncode != 0:
        raise vp.Machinery("leng failed (%d):\n%s" % (p.returncode, out[-3000:]))
    return tp, json.load(open(pp)), json.load(open(stp))


def normalise(paths):
    """Loops (a watcher called once per entry under the gossip mutex, ...) produce paths that differ only in
    how often an inner acquire/release pair is repeated; one repetition stands for all of them."""
    out = {}
    for key, n in paths.items():
        toks = key.split(" ")
        changed = True
        while changed:
            changed = False
            for size in (2, 4, 6, 8):
                i = 0
                res = []
                while i < len(toks):
                    if i + 2 * size <= len(toks) and toks[i:i + size] == toks[i + size:i + 2 * size]:
                        # drop the second copy of a repeated block that leaves the held set unchanged
                        blk = toks[i:i + size]
                        acq = sorted(t[2:] for t in blk if t.startswith("A:"))
                        rel = sorted(t[2:] for t in blk if t.startswith("R:"))
                        if acq == rel:
                            res.extend(blk)
                            i += 2 * size
                            changed = True
                            continue
                    res.append(toks[i])
                    i += 1
                toks = res
        # an acquire/release pair with nothing in between, of a lock that the path already acquired in the same
        # mode while holding the same locks, adds no new blocking point (same held set, same wanted lock)
        # (repeated until nothing changes: removing an inner pair can leave its outer pair empty)
        while True:
            held, seen, res, i = [], set(), [], 0
            while i < len(toks):
                kind, name, mode = toks[i].split(":")
                if kind == "A":
                    key = (tuple(sorted(held)), name, mode)
                    if i + 1 < len(toks) and toks[i + 1] == "R:%s:%s" % (name, mode) and key in seen:
                        i += 2
                        continue
                    seen.add(key)
                    held.append(name + ":" + mode)
                elif name + ":" + mode in held:
                    held.remove(name + ":" + mode)
                res.append(toks[i])
                i += 1
            if res == toks:
                break
            toks = res
        k = " ".join(res)
        out[k] = out.get(k, 0) + n
    return out


def paths_module(paths):
    """observed lock paths -> MC_Locks.tla defining ObsPaths"""
    seqs = []
    paths = normalise(paths)
    for key in sorted(paths):
        ops = []
        for tok in key.split(" "):
            kind, name, mode = tok.split(":")
            if kind == "A":
                ops.append('[op |-> "%s", lk |-> "%s"]' % (mode, name))
            else:
                ops.append('[op |-> "%s", lk |-> "%s"]' % ("Unlock" if mode == "Lock" else "RUnlock", name))
        seqs.append("<<" + ", ".join(ops) + ">>")
    body = "<<\n  " + ",\n  ".join(seqs) + "\n>>"
    return ("---- MODULE MC_Locks ----\n(* generated from the lock paths observed in this run *)\nEXTENDS Locks\n"
            "ObsPaths == " + body + "\n====\n"), sorted(paths)


def lock_model(chk, workdir, paths, procs, timeout=2400):
    text, keys = paths_module(paths)
    d = os.path.join(workdir, "mc%d" % procs)
    os.makedirs(d, exist_ok=True)
    vp.copy_specs(d, ["Locks"])
    open(os.path.join(d, "MC_Locks.tla"), "w").write(text)
    cfg = ("SPECIFICATION Spec\nCONSTANTS\n  Paths <- ObsPaths\n  Procs = %d\nCHECK_DEADLOCK TRUE\n"
           "INVARIANT MutualExclusion\n" % procs)
    res = vp.run_tlc(d, "MC_Locks", cfg, timeout=timeout)
    chk.add_tlc(res, "C20-locks-%dprocs" % procs)
    if res.error and not res.deadlock:
        raise vp.Machinery("Locks.tla failed:\n" + res.error)
    return res, keys


def gate_from_deadlock(res, keys):
    """From TLC's deadlock state: which path each blocked goroutine runs, what it holds and what it wants."""
    out = res.out[res.out.rfind("State "):] if "State " in res.out else res.out
    mpath = re.search(r"/\\ path = (<<.*?>>)", out, re.S)
    mpc = re.search(r"/\\ pc = (<<.*?>>)", out, re.S)
    if not mpath or not mpc:
        return None, "could not read the deadlock state"
    pth = tlaparse.parse_value(mpath.group(1))
    pcs = tlaparse.parse_value(mpc.group(1))
    blocked = []
    for p, (pi, pc) in enumerate(zip(pth, pcs)):
        toks = keys[pi - 1].split(" ")
        if pc > len(toks):
            continue
        held = []
        for tok in toks[:pc - 1]:
            kind, name, mode = tok.split(":")
            if kind == "A":
                held.append(name)
            elif name in held:
                held.remove(name)
        want = toks[pc - 1].split(":")[1]
        blocked.append({"path": keys[pi - 1], "held": held, "want": want})
    if len(blocked) == 2:
        # a lock that one goroutine read-locks twice, with a writer arriving in between (the writer holds nothing)
        for r, w in ((blocked[0], blocked[1]), (blocked[1], blocked[0])):
            if not w["held"] and r["held"] and r["want"] == w["want"] and r["want"] in r["held"]:
                return [r["want"], r["want"], "", w["want"]], json.dumps(blocked)
    if len(blocked) < 2 or not blocked[0]["held"] or not blocked[1]["held"]:
        return None, json.dumps(blocked)
    g = [blocked[0]["held"][-1], blocked[0]["want"], blocked[1]["held"][-1], blocked[1]["want"]]
    return g, json.dumps(blocked)


@prop("C20")
def c20(chk):
    quick = chk.tier == "quick"
    chk.rule = ("(1) the mutex call sites of the anchored files are instrumented at check time from the current "
                "working tree; a seeded stress run on a real 3-node in-process cluster (race detector on; upstream "
                "connects/disconnects incl. go-away removals, proxied requests from every node, status reads, "
                "against the nodes' own gossip listeners and periodic tasks) records every goroutine's lock paths, "
                "each operation under a 20 s watchdog; (2) Locks.tla: TLC checks deadlock freedom for every "
                "combination and interleaving of 2 (thorough: 3) of the OBSERVED paths with Go's writer-preferring "
                "RWMutex (also: read-locked twice by one goroutine with a writer in between); a deadlock found by TLC is turned into a gate in the instrumented build and must really "
                "hang; (3) at quiescence registry = routing entry = gossip keys on every node (TraceLk.tla); (4) the expiry "
                "sweep raced by two goroutines against incoming gossip about the node it expires, on gossip nodes "
                "with the real syncer and routing table attached: afterwards gossip state and routing table agree "
                "(TraceG.tla: AllKnownTracked, NoOrphans, CaughtUpMirrors)")
    chk.assumptions = ["lock identity = mutex field per type (one instance of each per node; nodes only interact "
                       "over sockets)", "data races are reported by the race detector that runs alongside; they are "
                       "not decided by the specification", "the expiry sweep needs a 60 s old left/unreachable node "
                       "and is not exercised by the live stress run (hence stage 4)"]
    with vp.Scratch("locks") as d:
        binary, sites = build_leng(d)
        chk.notes["instrumented_lock_sites"] = sites
        tp, paths, st = run_leng(chk, binary, d, "stress", 8 if quick else 90)
        if tp is None:
            chk.violation({"kind": "leng-crash", "output": st["crash"]},
                          "stress run: a data race, panic or hang in the real code:\n" + st["crash"][-2500:])
        chk.evaluations += st.get("operations", 0)
        paths = normalise(paths)
        chk.nontrivial += len(paths)
        chk.notes["stress"] = st
        chk.sample({"engine": "leng", "lock_paths": sorted(paths)[:6]})
        v = G.validate(chk, tp, [], module="TraceLk", label="quiescence",
                       cfg=vp.cfg_text("TraceSpec", {}, ["NoStepViolation", "DriftReport"], (), None,
                                       ["POSTCONDITION Consumed"]))
        chk.traces += 1
        if v.violation:
            chk.violation({"kind": "leng-quiet", "last": v.violation["last_step"]},
                          "after the stress run a node is not consistent at quiescence: %s %s" % (
                              v.violation["step_violations"], json.dumps(v.violation["last_step"])[:600]))
        if not paths:
            raise vp.Machinery("no lock paths observed: the instrumentation did not take effect")
        nested = [k for k in paths if k.count("A:") > 1]
        chk.notes["nested_lock_paths"] = nested[:40]
        res, keys = lock_model(chk, d, paths, 2)
        if not res.deadlock and not quick:
            # three goroutines over the nested paths plus the most frequent simple ones
            sub = {k: paths[k] for k in nested}
            for k in sorted(paths, key=lambda k: -paths[k])[:6]:
                sub[k] = paths[k]
            res, keys = lock_model(chk, d, sub, 3, timeout=3000)
        if res.deadlock:
            gate, info = gate_from_deadlock(res, keys)
            chk.notes["tlc_deadlock"] = info
            if gate is None:
                raise vp.Machinery("Locks.tla reports a deadlock among the observed lock paths that could not be "
                                   "turned into a schedule: " + info)
            tp2, paths2, st2 = run_leng(chk, binary, d, "gated", 12, gate=gate)
            if tp2 is None and "HANG:" in st2.get("crash", ""):
                chk.violation({"kind": "leng-gate", "gate": gate, "blocked": info},
                              "deadlock: TLC found a cycle among the observed lock paths %s and the gated real "
                              "schedule hung:\n%s" % (info, st2["crash"][-1500:]))
            raise vp.Machinery("Locks.tla reports a potential deadlock %s but the gated real run did not hang "
                               "(gate hits: %s); not reported as a violation" % (info, (st2 or {}).get("gate_hits")))
    # expiry cannot happen in a live run (the expiry period is a one-minute constant): the sweep is raced against
    # incoming gossip on the gossip engine's nodes, with the real syncer and routing table attached
    import checks_routing
    checks_routing.race_expiry(chk)


def _replay(chk, obj):
    with vp.Scratch("locks-replay") as d:
        binary, sites = build_leng(d)
        tp, paths, st = run_leng(chk, binary, d, "replay", 12, gate=obj.get("gate"))
        if tp is None:
            chk.violation(obj, "replay: " + st["crash"][-1500:])
    print("replay: not reproduced")


REPLAYERS["leng-gate"] = _replay
REPLAYERS["leng-crash"] = _replay
REPLAYERS["leng-quiet"] = _replay
