"""C13: gossip packets fit the size limit, decode to prefixes, survive hostile input.
Model: Packet.tla (the encoder loops, exhaustive over element sizes and budgets);
binding: the real encodeDelta/encodeDigest/decoders swept over maximum packet sizes, every datagram
emitted in gossip runs with small budgets, and mutated / forged datagrams and streams fed to the real
packet and stream handlers; all judged by TLC (TraceG.tla)."""
import gossip as G
import vp
from checks import prop, run_schedules

PACKET_INV = ["FitsBudget", "WholeElementsOnly", "LongestFittingPrefix", "EntryWheneverFits", "HeaderError"]
C13_TRACE_INV = ["KeysUnique", "LocalNeverFlagged", "NoStepViolation"]


def packet_model(chk, label, consts, timeout=1200):
    with vp.Scratch("mc-" + label) as d:
        vp.copy_specs(d, ["Packet"])
        cfg = vp.cfg_text("Spec", consts, PACKET_INV, ["Terminates"], None)
        res = vp.run_tlc(d, "Packet", cfg, timeout=timeout)
    chk.add_tlc(res, label)
    if res.error or res.violated or res.queue != 0:
        raise vp.Machinery("Packet.tla model %s failed (%s):\n%s" % (label, res.violated, res.out[-3000:]))


@prop("C13")
def c13(chk):
    quick = chk.tier == "quick"
    chk.rule = ("(1) Packet.tla: every delta shape x element-size assignment x budget of the bounded encoder model; "
                "(2) seeded random deltas/digests (unicode, empty values, 0-6 nodes) through the real encoders at "
                "every element boundary -1/0/+1, below the header and beyond the total (thorough: every size), "
                "decoded by the real decoder; (3) every datagram emitted by gossip runs with byte budgets; "
                "(4) mutated and forged datagrams and streams into the real handlers under a watchdog")
    chk.assumptions = ["robustness to every byte string is sampled (mutation of real traffic + forged messages), "
                       "not decided", "versions above 10^9 are logged as 10^9"]
    if quick:
        packet_model(chk, "C13-packet", {"Sizes": {1, 3}, "MaxNodes": 2, "MaxEntries": 3, "HeaderSize": 2})
    else:
        packet_model(chk, "C13-packet", {"Sizes": {1, 2, 5}, "MaxNodes": 3, "MaxEntries": 2, "HeaderSize": 3})
    nodes = ["a", "b", "c"]
    ops = {}

    def account(st):
        for k, n in st.get("by_op", {}).items():
            ops[k] = ops.get(k, 0) + n
        chk.nontrivial += st.get("steps", 0) - st.get("by_op", {}).get("Reset", 0)

    sweeps = {"nodes": nodes, "initKnown": True, "encodeSweeps": 60 if quick else 1500}
    v, st = run_schedules(chk, sweeps, "encode-sweeps", nodes, invariants=C13_TRACE_INV)
    account(st)
    full = {"nodes": nodes, "initKnown": True, "encodeSweeps": 6 if quick else 80, "fullSweep": True}
    v, st = run_schedules(chk, full, "encode-full-sweeps", nodes, invariants=C13_TRACE_INV)
    account(st)
    walks = {"nodes": ["a", "b", "c", "d"], "initKnown": True, "walks": 600 if quick else 8000, "depth": 80,
             "keys": ["k1", "k2", "k3", "a-much-longer-key-name-to-vary-sizes"],
             "vals": ["", "x", "y", "a-longer-value-to-vary-entry-sizes", "é日本😀"],
             "writers": ["a", "b", "c", "d"], "masked": True, "crashers": []}
    v, st = run_schedules(chk, walks, "walks", walks["nodes"], invariants=C13_TRACE_INV)
    account(st)
    chk.notes["datagrams_checked_for_size"] = st.get("datagrams", 0)
    hostile = {"nodes": nodes, "initKnown": True, "hostile": 2000 if quick else 200000}
    v, st = run_schedules(chk, hostile, "hostile", nodes, invariants=C13_TRACE_INV + ["ForeignNodesAllowed"])
    account(st)
    chk.notes["executed_calls_by_action"] = ops
    for need in ("Encode", "EncodeDigest", "Hostile", "RecvDigest", "RecvDelta"):
        if ops.get(need, 0) == 0:
            raise vp.Machinery("vacuous run: the real code never executed " + need)
