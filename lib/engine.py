"""Generic: schedules -> a harness binary on the real code -> ndjson trace -> TLC trace validation."""
import json
import os
import subprocess

import gossip as G
import vp


def run_binary(workdir, binary, sched, seed, name, race=False, timeout=3600, extra_args=()):
    vp.build_harness([binary], race=race)
    sp = os.path.join(workdir, name + ".sched.json")
    tp = os.path.join(workdir, name + ".ndjson")
    stp = os.path.join(workdir, name + ".stats.json")
    with open(sp, "w") as f:
        json.dump(sched, f)
    try:
        p = subprocess.run([os.path.join(vp.HBIN, binary + ("-race" if race else "")), "-schedules", sp, "-out", tp,
                            "-stats", stp, "-seed", str(seed)] + list(extra_args),
                           stdout=subprocess.PIPE, stderr=subprocess.STDOUT, text=True, timeout=timeout)
    except subprocess.TimeoutExpired:
        raise vp.Machinery("%s timed out after %ds" % (binary, timeout))
    out = p.stdout
    if p.returncode != 0 or "DATA RACE" in out:
        if "panic:" in out or "fatal error:" in out or "HANG:" in out or "DATA RACE" in out:
            return tp, {"crash": out[-6000:]}
        if p.returncode == 4 and "scenario could not be set up" in out and os.path.exists(tp):
            # the engine gave up while preparing a later scenario; what it observed before that is still judged
            # (a change that corrupts the node's state can make the next set-up impossible)
            by_op, n = {}, 0
            with open(tp) as f:
                for line in f:
                    try:
                        op = json.loads(line).get("op", "")
                    except ValueError:
                        break
                    n += 1
                    by_op[op] = by_op.get(op, 0) + 1
            if n > 0:
                return tp, {"partial": out[-3000:], "steps": n, "by_op": by_op, "behaviours": by_op.get("Reset", 0)}
        raise vp.Machinery("%s failed (%d):\n%s" % (binary, p.returncode, out[-4000:]))
    return tp, json.load(open(stp))


def trace_cfg(consts, invariants):
    return vp.cfg_text("TraceSpec", consts, list(invariants) + ["DriftReport"], (), None,
                       ["POSTCONDITION Consumed"])


def run(chk, binary, sched, label, module, consts, invariants, replay_kind, race=False, what="the code",
        strip=("walks", "conc", "cases"), timeout=3600, max_lines=9000):
    """Executes sched with the binary, validates the trace with TLC; VIOLATION on an invariant failure."""
    with vp.Scratch(binary + "-" + label) as d:
        tp, stats = run_binary(d, binary, sched, chk.seed, label, race=race, timeout=timeout)
        if "crash" in stats:
            chk.violation({"kind": binary + "-crash", "output": stats["crash"]},
                          "%s: %s panicked, hung or raced:\n%s" % (label, what, stats["crash"][-1500:]))
        v = G.validate(chk, tp, [], module=module, label=label, cfg=trace_cfg(consts, invariants),
                       max_lines=max_lines)
        if stats.get("steps"):
            with open(tp) as f:
                lines = [json.loads(x).get("cmd") for i, x in enumerate(f) if i < 12]
            chk.sample({"engine": binary, "what": label, "first_calls": lines})
    chk.traces += stats.get("behaviours", 0)
    chk.evaluations += stats.get("steps", 0)
    chk.nontrivial += stats.get("steps", 0) - stats.get("by_op", {}).get("Reset", 0)
    if v.violation:
        viol = v.violation
        why = "%s: invariant %s %s fails on what was observed from %s after call %d (%s)" % (
            label, viol["invariant"], viol["step_violations"], what, viol["line"] - 1,
            json.dumps(viol["cmds"][-1]) if viol["cmds"] else "init")
        ls = viol.get("last_step") or {}
        detail = {k: ls[k] for k in ("fields", "note", "status", "tookMs", "checks", "victim", "phase", "kill")
                  if ls.get(k) not in (None, "", [], 0, False)}
        if detail:
            why += "\n  observed: " + json.dumps(detail)[:1500]
        rs = {k: v2 for k, v2 in sched.items() if k not in strip}
        rs["behaviours"] = [viol["cmds"]]
        chk.violation({"kind": replay_kind, "binary": binary, "module": module, "sched": rs, "seed": chk.seed,
                       "full_sched": {k: v2 for k, v2 in sched.items() if k != "behaviours"},
                       "consts": {k: sorted(x) if isinstance(x, (set, frozenset)) else x
                                  for k, x in consts.items() if not isinstance(x, (vp.Sub, vp.Raw))},
                       "invariants": list(invariants)}, why)
    if stats.get("partial"):
        raise vp.Machinery("%s stopped before the end of its schedule (nothing it had observed until then violates "
                           "the property):\n%s" % (binary, stats["partial"]))
    return v, stats


def replay(chk, obj, what="the code"):
    consts = {k: set(v) if isinstance(v, list) else v for k, v in obj["consts"].items()}
    v, st = run(chk, obj["binary"], obj["sched"], "replay", obj["module"], consts, obj["invariants"], obj["kind"],
                what=what)
    print("replay: not reproduced (%d calls, drift %d)" % (st.get("steps", 0), v.drift))
