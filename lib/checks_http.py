"""C08: HTTP proxying is transparent; gateway failures map to 400/502/504
(HttpMap.tla + cmd/peng mode c08 on a real two-node cluster)."""
import engine
import vp
from checks import prop, REPLAYERS

H_INV = ["PikoAnswersOnly400_502_504", "MissingEndpointIs400", "UnavailableIs502", "SlowIs504UnlessUpgrade",
         "NoFabricatedSuccess", "OnlyGatewayErrorsOrTheUpstream"]


@prop("C08")
def c08(chk):
    quick = chk.tier == "quick"
    chk.rule = ("(1) HttpMap.tla: the decision table (endpoint determinable x route x upstream behaviour x upgrade x "
                "whether the client half-closes once the request is sent) "
                "and its invariants; (2) a real two-node cluster (proxy timeout 300 ms): seeded randomly shaped "
                "requests (7 methods, escaped paths and queries, Host vs x-piko-endpoint addressing, repeated "
                "headers, bodies up to 1 MiB, response status / headers / body up to 200 kB, chunked or not) "
                "Accept-Encoding / Content-Encoding of the client's and the upstream's choosing) through the local "
                "and the forwarded path to an upstream that reports what it saw - a listener, or a local service "
                "behind the agent's reverse proxy; then every failure mode (no endpoint, absent, go-away, closes "
                "before headers, closes mid-body with and without a Content-Length, slower than the timeout, slow "
                "WebSocket upgrade, slow other upgrade) on both paths and both kinds of upstream with the time to "
                "the answer; judged by TLC (TraceH.tla)")
    chk.assumptions = ["equality of bytes and headers is compared by the harness (hash / field by field); TLC sees "
                       "the list of differing fields", "hop-by-hop headers, X-Forwarded-For and x-piko-forward are "
                       "not part of the comparison", "no-hang limit = timeout + 1.5 s",
                       "a transparent exchange that piko answers with 504 after its 300 ms timeout is repeated (twice at "
                       "most) before it is judged; many such repeats = no verdict (starved machine)",
                       "the agent is configured with http_client.disable_compression: true (with the documented "
                       "default its transport negotiates gzip with the local service on its own)"]
    with vp.Scratch("mc-C08") as d:
        vp.copy_specs(d, ["HttpMap"])
        res = vp.run_tlc(d, "HttpMap", vp.cfg_text("Spec", {}, H_INV, [], None), timeout=600)
    chk.add_tlc(res, "C08-table")
    if res.error or res.violated or res.queue != 0:
        raise vp.Machinery("HttpMap.tla failed (%s):\n%s" % (res.violated, res.out[-3000:]))
    v, st = engine.run(chk, "peng", {"mode": "c08", "sample": 300 if quick else 40000}, "http", "TraceH", {},
                       ["NoStepViolation"], "peng-http", what="the real proxy", strip=(), timeout=3400)
    chk.notes["executed_calls_by_action"] = st.get("by_op")
    chk.notes["transparent_exchanges_repeated_after_a_genuine_504"] = st.get("timeout_retries", 0)
    if st.get("timeout_retries", 0) > max(5, st.get("steps", 0) // 200):
        raise vp.Machinery("%d transparent exchanges ran into the 300 ms proxy timeout of the test nodes: the machine is "
                           "too starved for a verdict" % st.get("timeout_retries", 0))
    chk.nontrivial = st.get("distinct_outcomes", 0)
    chk.rule += "; distinct_nontrivial = distinct (status, served) outcomes"
    if st.get("by_op", {}).get("Http", 0) == 0:
        raise vp.Machinery("vacuous run")


def _replay(chk, obj):
    chk.seed = obj.get("seed", chk.seed)
    v, st = engine.run(chk, "peng", obj.get("full_sched", {"mode": "c08", "sample": 300}), "replay", "TraceH", {},
                       ["NoStepViolation"], "peng-http", what="the real proxy", strip=())
    print("replay: not reproduced (%d exchanges)" % st.get("steps", 0))


REPLAYERS["peng-http"] = _replay
