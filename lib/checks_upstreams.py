"""C05 / C15: the upstream registry (Upstreams.tla + engine U: the real LoadBalancedManager,
cluster.State, syncer and gossip state)."""
import json
import os
import re
import subprocess
import time

import gossip as G
import vp
from checks import prop, REGISTRY

U_CONST = {"UpE1": {"u1", "u2", "u3"}, "UpE2": {"u4"}, "Remote": {"e2", "e3"}, "MaxSel": 9}
COVERS = [{"UpE1": {"u1", "u2", "u3"}, "UpE2": {"u4"}, "Remote": set(), "MaxSel": 9},
          {"UpE1": {"u1"}, "UpE2": {"u4"}, "Remote": {"e2", "e3"}, "MaxSel": 5}]
U_CONST_T ={"UpE1": {"u1", "u2", "u3", "u4"}, "UpE2": {"u5", "u6"}, "Remote": {"e2", "e3"}, "MaxSel": 13}

C05_INV = ["CountsMatch", "PublishedMatches", "AdvertisedIffConnected", "ClosedAreRegistered"]
C15_INV = ["CursorInRange", "NoDuplicates", "RightEndpoint", "WindowFair", "NoStarvation"]
C05_TRACE = C05_INV + ["MgrMatches", "NoStepViolation"]
C15_TRACE = C15_INV + ["NoStepViolation"]


def sched_of(c):
    return {"upE1": sorted(c["UpE1"]), "upE2": sorted(c["UpE2"]), "remote": sorted(c["Remote"])}


def u_cfg(c, invariants):
    return vp.cfg_text("TraceSpec", c, list(invariants) + ["DriftReport"], (), None, ["POSTCONDITION Consumed"])


def run_ueng(workdir, sched, seed, name, race=False):
    vp.build_harness(["ueng"], race=race)
    sp = os.path.join(workdir, name + ".sched.json")
    tp = os.path.join(workdir, name + ".ndjson")
    stp = os.path.join(workdir, name + ".stats.json")
    with open(sp, "w") as f:
        json.dump(sched, f)
    p = subprocess.run([os.path.join(vp.HBIN, "ueng" + ("-race" if race else "")), "-schedules", sp, "-out", tp,
                        "-stats", stp, "-seed", str(seed)], stdout=subprocess.PIPE, stderr=subprocess.STDOUT,
                       text=True, timeout=3600)
    if p.returncode != 0:
        if "panic:" in p.stdout or "fatal error:" in p.stdout or "HANG:" in p.stdout or "DATA RACE" in p.stdout:
            return tp, {"crash": p.stdout[-6000:]}
        raise vp.Machinery("ueng failed (%d):\n%s" % (p.returncode, p.stdout[-4000:]))
    st = json.load(open(stp))
    if "DATA RACE" in p.stdout:
        st["crash"] = p.stdout[-6000:]
    return tp, st


def run_u(chk, sched, label, consts, invariants, race=False):
    with vp.Scratch("u-" + label) as d:
        tp, stats = run_ueng(d, sched, chk.seed, label, race=race)
        if "crash" in stats:
            chk.violation({"kind": "ueng-crash", "output": stats["crash"]},
                          "%s: the upstream registry panicked, hung or raced:\n%s" % (label, stats["crash"][-1500:]))
        v = G.validate(chk, tp, [], module="TraceU", label=label, cfg=u_cfg(consts, invariants))
        if stats.get("steps"):
            with open(tp) as f:
                lines = [json.loads(x)["cmd"] for i, x in enumerate(f) if i < 12]
            chk.sample({"engine": "ueng", "what": label, "first_calls": lines})
    chk.traces += stats.get("behaviours", 0)
    chk.evaluations += stats.get("steps", 0)
    chk.nontrivial += stats.get("steps", 0) - stats.get("by_op", {}).get("Reset", 0)
    if v.violation:
        viol = v.violation
        why = "%s: invariant %s %s fails on the state observed from the real registry after call %d (%s)" % (
            label, viol["invariant"], viol["step_violations"], viol["line"] - 1,
            json.dumps(viol["cmds"][-1]) if viol["cmds"] else "init")
        chk.violation({"kind": "ueng-trace", "sched": dict(sched, behaviours=[viol["cmds"]], walks=0, conc=0),
                       "consts": {k: sorted(v) if isinstance(v, set) else v for k, v in consts.items()},
                       "invariants": list(invariants)}, why)
    return v, stats


IND_ACTIONS = ["AddLocal(e)", "RemoveLocal(e)", "AddConn(u)", "RemoveConn(u)", "CloseSess(u)"]
IND_GHOSTS = ("recent", "wait", "last", "radv", "rup")


def action_text(path, head):
    """the definition of an action, without the conjuncts and UNCHANGED members that name the ghost / output /
    remote-node variables (UpInd.tla has none of them)"""
    s = open(path).read()
    m = re.search(r"^" + re.escape(head) + r" ==\n(.*?)\n\n", s, re.S | re.M)
    if not m:
        raise vp.Machinery("%s not found in %s" % (head, path))
    out = []
    for x in m.group(1).splitlines():
        x = re.sub(r"\s+", " ", x).strip()
        if re.match(r"/\\ (%s)' =" % "|".join(IND_GHOSTS), x):
            continue
        x = re.sub(r",\s*(%s)\b" % "|".join(IND_GHOSTS), "", x)
        if x:
            out.append(x)
    return out


def induction(chk, n):
    """Unbounded in the length of the history: UpInd.tla (the registry actions of Upstreams.tla, same text) with an
    inductive invariant discharged by Apalache for every partition of up to n upstream identities over the two
    endpoints: Init => IndInv and IndInv /\\ Next => IndInv'."""
    a, b = os.path.join(vp.SPEC, "apalache", "UpInd.tla"), os.path.join(vp.SPEC, "Upstreams.tla")
    for head in IND_ACTIONS:
        if action_text(a, head) != action_text(b, head):
            raise vp.Machinery("%s in UpInd.tla differs from Upstreams.tla" % head)
    src = open(a).read()
    uni = "{" + ", ".join('"u%d"' % i for i in range(1, n + 1)) + "}"
    src, k1 = re.subn(r"^Universe == .*$", "Universe == " + uni, src, flags=re.M)
    src, k2 = re.subn(r"^MaxU == \d+$", "MaxU == %d" % n, src, flags=re.M)
    if k1 != 1 or k2 != 1:
        raise vp.Machinery("UpInd.tla: Universe / MaxU not found")
    with vp.Scratch("apalache-" + chk.prop) as d:
        with open(os.path.join(d, "UpInd.tla"), "w") as f:
            f.write(src)
        for what, args in (("base", ["--init=Init", "--length=0"]), ("step", ["--init=IndInit", "--length=1"])):
            t0 = time.time()
            cmd = ["apalache-mc", "check", "--cinit=CInit", "--inv=IndInv", "--out-dir=" + os.path.join(d, "out")] \
                + args + ["UpInd.tla"]
            try:
                p = subprocess.run(cmd, cwd=d, stdout=subprocess.PIPE, stderr=subprocess.STDOUT, text=True,
                                   timeout=3600)
            except subprocess.TimeoutExpired:
                raise vp.Machinery("apalache timed out on the %s case of UpInd.tla" % what)
            ok = "The outcome is: NoError" in p.stdout
            chk.tlc_cmds.append({"what": "apalache-induction-" + what, "cmd": " ".join(cmd[:2] + cmd[2:4] + args),
                                 "outcome": "NoError" if ok else "Error", "wall_s": round(time.time() - t0, 1)})
            if not ok:
                raise vp.Machinery("the inductive invariant of UpInd.tla fails (%s case):\n%s" % (what, p.stdout[-2000:]))
    chk.notes["unbounded_induction"] = ("IndInv of UpInd.tla (counts = registered upstreams, published = counts, "
                                        "cursor in range, no duplicates): every partition of up to %d upstreams over "
                                        "two endpoints, removals repeated any number of times, runs of any length" % n)


def upstream_family(chk, model_inv, model_props, trace_inv):
    quick = chk.tier == "quick"
    c = U_CONST if quick else U_CONST_T
    res = G.model_check(chk, chk.prop + "-exhaustive", c, model_inv, model_props, module="Upstreams")
    induction(chk, 3 if quick else 5)
    # two complete transition covers: every local add/remove/close/select interleaving with a silent remote node,
    # and every change of the remote node (advertise, withdraw, unreachable, reachable) with few local upstreams
    ops = {}
    chk.notes["cover"] = []
    chk.exhaustive = True
    for i, cc in enumerate(COVERS):
        beh, info = G.gen_cover(chk, "%s-cover%d" % (chk.prop, i), cc, module="Upstreams", view="View", max_len=60)
        chk.notes["cover"].append(info)
        chk.exhaustive = chk.exhaustive and info["uncovered_edges"] == 0
        v, st = run_u(chk, dict(sched_of(cc), behaviours=beh), "cover%d" % i, cc, trace_inv)
        for k, n in st["by_op"].items():
            ops[k] = ops.get(k, 0) + n
    big = {"UpE1": {"u%d" % i for i in range(1, 9)}, "UpE2": {"u%d" % i for i in range(9, 13)},
           "Remote": {"e2", "e3"}, "MaxSel": 25}
    v, st = run_u(chk, dict(sched_of(big), walks=150 if quick else 30000, depth=90), "walks", big, trace_inv)
    for k, n in st["by_op"].items():
        ops[k] = ops.get(k, 0) + n
    v, st = run_u(chk, dict(sched_of(big), conc=120 if quick else 12000, goroutines=4, concCalls=30), "concurrent",
                  big, trace_inv, race=True)
    for k, n in st["by_op"].items():
        ops[k] = ops.get(k, 0) + n
    chk.notes["executed_calls_by_action"] = ops
    for need in ("AddConn", "RemoveConn", "CloseSess", "Select", "Quiesce"):
        if ops.get(need, 0) == 0:
            raise vp.Machinery("vacuous run: the real registry never executed " + need)


@prop("C05")
def c05(chk):
    chk.rule = ("every sequence of AddConn / RemoveConn (for any upstream ever added, any number of times) / "
                "CloseSess (the upstream's yamux session ends before its RemoveConn runs) / Select "
                "of the bounded Upstreams.tla model = complete transition cover executed on the real "
                "LoadBalancedManager + cluster.State + syncer + gossip state with real ConnUpstreams over real "
                "yamux sessions; seeded random sequences over 12 "
                "upstreams; concurrent episodes (race detector on) judged at quiescence")
    chk.assumptions = ["an upstream identity is registered at most once (the server creates a new ConnUpstream "
                       "per connection)"]
    publication_model(chk)
    upstream_family(chk, C05_INV, [], C05_TRACE)


PUB_INV = ["QuiescentCountsMatch", "CountFollowsRegistry", "NoNegative"]


def publication_model(chk):
    """Publish.tla: a call as Lock/Reg/Tell/Read/Pub/Unlock, Sync as five steps. The configuration that describes
    the code must satisfy the property; the configurations that drop one of the three facts it rests on must
    violate it (otherwise the model has lost its teeth). The schedules it explores are the ones the Stalled and
    StartUp episodes of the engine aim at."""
    procs = {"p1", "p2", "p3"}

    def c(calls, hold, sub, listen):
        return {"Proc": procs, "Calls": vp.Sub(calls), "HoldLock": hold, "SubscribeFirst": sub,
                "ListenAfterSync": listen}
    G.model_check(chk, "C05-publish-code", c("CallsMixed", True, True, True), PUB_INV, ["Finishes"], view=None,
                  module="Publish")
    G.model_check(chk, "C05-publish-late-subscription-masked", c("CallsAdd", True, False, True), PUB_INV,
                  ["Finishes"], view=None, module="Publish")
    teeth = {}
    for label, cc in (("lock-released-early", c("CallsAdd", False, True, True)),
                      ("late-subscription", c("CallsAdd", True, False, False)),
                      ("upstreams-during-sync", c("CallsMixed", True, True, False))):
        res = G.model_check(chk, "C05-publish-" + label, cc, PUB_INV, [], view=None, module="Publish",
                            expect_violation=True)
        teeth[label] = res.violated
        if not res.violated:
            raise vp.Machinery("Publish.tla no longer rejects the configuration '%s'" % label)
    chk.notes["publication_model"] = {
        "code": "HoldLock, SubscribeFirst, ListenAfterSync: QuiescentCountsMatch holds",
        "rejected_configurations": teeth}
    # ListenAfterSync is a fact of server.go's Start(): gossip (and with it Sync) before the upstream port
    src = open(os.path.join(vp.REPO, "server", "server.go")).read()
    m = re.search(r"func \(s \*Server\) Start\(\) error \{(.*?)\n}\n", src, re.S)
    body = m.group(1) if m else ""
    i, j = body.find("s.startGossip()"), body.find("s.startUpstreamServer()")
    if i < 0 or j < 0 or i > j:
        raise vp.Machinery("server.go Start(): the upstream port is no longer opened after gossip has started; "
                           "Publish.tla's ListenAfterSync does not describe this tree")


@prop("C15")
def c15(chk):
    chk.rule = ("as C05, judged on the load balancer order and cursor read back after every call and on every "
                "Select result: SelectValid, NoRemoteWhenNotAllowed, RemoteWhenAvailable, CursorInRange, "
                "WindowFair (no repeat within n selections of an unchanged set), NoStarvation; concurrent "
                "selections must be explainable by the begin/end ticks of the concurrent adds and removes")
    chk.assumptions = ["an upstream identity is registered at most once"]
    upstream_family(chk, C15_INV, ["SelectValid"], C15_TRACE)


def replay_u(chk, obj):
    consts = {k: set(v) if isinstance(v, list) else v for k, v in obj["consts"].items()}
    v, st = run_u(chk, obj["sched"], "replay", consts, obj["invariants"])
    print("replay: not reproduced (%d calls, drift %d)" % (st.get("steps", 0), v.drift))
