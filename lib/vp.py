"""Common machinery for the checks: scratch dirs, building the harness, running TLC,
trace validation batches, evidence files, verdict lines."""
import json
import os
import re
import shutil
import subprocess
import sys
import time
from concurrent.futures import ThreadPoolExecutor

ROOT = os.path.dirname(os.path.dirname(os.path.abspath(__file__)))
REPO = os.environ.get("VERIF_REPO", "/repo")
OUT = os.path.join(ROOT, "out")
SPEC = os.path.join(ROOT, "spec")
HARNESS = os.path.join(ROOT, "harness")
HBIN = os.path.join(HARNESS, "bin")
EVIDENCE = os.path.join(ROOT, "evidence")
REPLAY = os.path.join(OUT, "replay")
KNOWN = os.path.join(ROOT, "KNOWN_FINDINGS.txt")
NCPU = os.cpu_count() or 4

# Development aid: VERIF_REPO=<another checkout> runs the checks against that tree (used to try
# seeded changes without touching /repo). Everything it writes goes under out/alt-<name>/ and the
# harness is built from a copy whose go.mod points at that tree. Registered commands never set it.
if REPO != "/repo":
    _alt = os.path.join(OUT, "alt-" + os.path.basename(REPO.rstrip("/")))
    OUT = _alt
    EVIDENCE = os.path.join(_alt, "evidence")
    REPLAY = os.path.join(_alt, "replay")
    _HSRC = HARNESS
    HARNESS = os.path.join(_alt, "harness")
    HBIN = os.path.join(HARNESS, "bin")
    NCPU = int(os.environ.get("VERIF_NCPU", NCPU))


def _prepare_alt_harness():
    if REPO == "/repo":
        return
    os.makedirs(HARNESS, exist_ok=True)
    subprocess.run(["rsync", "-a", "--delete", "--exclude", "bin", _HSRC + "/", HARNESS + "/"], check=True)
    gm = os.path.join(HARNESS, "go.mod")
    txt = open(gm).read().replace("=> /repo", "=> " + REPO)
    open(gm, "w").write(txt)


class Machinery(Exception):
    """Something in the verification machinery failed (never a verdict)."""


def die_machinery(msg):
    sys.stdout.flush()
    print("MACHINERY-FAILURE: " + msg, file=sys.stderr)
    sys.exit(2)


def go_env():
    env = dict(os.environ)
    env["GOFLAGS"] = "-mod=mod"
    env["GOPROXY"] = "off"
    env.pop("GOSUMDB", None)
    if env.get("GOTOOLCHAIN") == "local":
        env.pop("GOTOOLCHAIN")
    return env


def sh(cmd, cwd=None, env=None, timeout=None, check=False):
    p = subprocess.run(cmd, cwd=cwd, env=env, timeout=timeout, stdout=subprocess.PIPE,
                       stderr=subprocess.STDOUT, text=True)
    if check and p.returncode != 0:
        raise Machinery("command failed (%d): %s\n%s" % (p.returncode, " ".join(cmd), p.stdout[-4000:]))
    return p.returncode, p.stdout


_built = set()


def build_harness(cmds, race=False):
    """Builds harness/cmd/<name> against /repo's working tree with the verif tag."""
    if not _built:
        _prepare_alt_harness()
    os.makedirs(HBIN, exist_ok=True)
    shutil.copyfile(os.path.join(REPO, "go.sum"), os.path.join(HARNESS, "go.sum"))
    for c in cmds:
        key = (c, race)
        if key in _built:
            continue
        out = os.path.join(HBIN, c + ("-race" if race else ""))
        args = ["go", "build", "-tags", "verif"]
        if race:
            args.append("-race")
        args += ["-o", out, "./cmd/" + c]
        rc, o = sh(args, cwd=HARNESS, env=go_env(), timeout=1500)
        if rc != 0:
            raise Machinery("harness build failed for %s:\n%s" % (c, o[-6000:]))
        _built.add(key)
    return HBIN


class Scratch:
    def __init__(self, name):
        self.dir = os.path.join(OUT, "scratch", "%s-%d-%d" % (name, os.getpid(), int(time.time() * 1000) % 100000000))

    def __enter__(self):
        os.makedirs(self.dir, exist_ok=True)
        return self.dir

    def __exit__(self, *a):
        if not os.environ.get("VERIF_KEEP"):
            shutil.rmtree(self.dir, ignore_errors=True)


def cfg_text(spec="Spec", constants=None, invariants=(), properties=(), view=None, extra=()):
    lines = ["SPECIFICATION " + spec]
    if constants:
        lines.append("CONSTANTS")
        for k, v in constants.items():
            if isinstance(v, Sub):
                lines.append("  %s <- %s" % (k, v.s))
            else:
                lines.append("  %s = %s" % (k, tla(v)))
    lines.append("CHECK_DEADLOCK FALSE")
    if view:
        lines.append("VIEW " + view)
    for i in invariants:
        lines.append("INVARIANT " + i)
    for p in properties:
        lines.append("PROPERTY " + p)
    lines += list(extra)
    return "\n".join(lines) + "\n"


def tla(v):
    if isinstance(v, bool):
        return "TRUE" if v else "FALSE"
    if isinstance(v, int):
        return str(v)
    if isinstance(v, str):
        return '"%s"' % v
    if isinstance(v, (set, frozenset)):
        return "{" + ", ".join(tla(x) for x in sorted(v, key=lambda x: (str(type(x)), x))) + "}"
    if isinstance(v, (list, tuple)):
        return "<<" + ", ".join(tla(x) for x in v) + ">>"
    if isinstance(v, Raw):
        return v.s
    raise ValueError(v)


class Raw:
    def __init__(self, s):
        self.s = s


class Sub:
    """CONSTANT name <- operator (substitution in the TLC config)."""

    def __init__(self, s):
        self.s = s


_STATS = re.compile(r"(\d+) states generated, (\d+) distinct states found, (\d+) states left on queue")


class TLCResult:
    def __init__(self, rc, out, wall):
        self.rc = rc
        self.out = out
        self.wall = wall
        m = None
        for m in _STATS.finditer(out):
            pass
        self.generated = int(m.group(1)) if m else 0
        self.distinct = int(m.group(2)) if m else 0
        self.queue = int(m.group(3)) if m else -1
        self.ok = "Model checking completed. No error has been found." in out or \
            ("Finished in" in out and "Error:" not in out and rc == 0)
        self.violated = None
        m = re.search(r"Error: Invariant (\S+) is violated", out)
        if m:
            self.violated = m.group(1)
        m = re.search(r"Error: Action property (\S+) is violated", out)
        if m:
            self.violated = m.group(1)
        if "Temporal properties were violated" in out:
            self.violated = self.violated or "temporal"
        self.deadlock = "Error: Deadlock reached" in out
        self.error = None
        if not self.ok and not self.violated and not self.deadlock:
            self.error = out[-3000:]

    def printed(self, tag):
        """Tuples printed with PrintT(<<"tag", ...>>)."""
        res = []
        for m in re.finditer(r'<<"%s"((?:, [^>]*)?)>>' % re.escape(tag), self.out):
            vals = [x.strip() for x in m.group(1).split(",") if x.strip()]
            res.append(vals)
        return res


def run_tlc(workdir, module, cfg, workers=None, simulate=None, depth=None, seed=None, dump=None,
            timeout=900, heap=None, extra=(), dfs=False):
    """Runs TLC in workdir (which must contain the .tla files). cfg is the text."""
    cfgname = module + "_run.cfg"
    with open(os.path.join(workdir, cfgname), "w") as f:
        f.write(cfg)
    meta = os.path.join(workdir, "meta")
    if (workers or NCPU) == 1:
        # many single-worker runs side by side: keep each JVM small
        java = ["java", "-XX:+UseSerialGC", "-XX:TieredStopAtLevel=1", "-XX:CICompilerCount=1"]
    else:
        java = ["java", "-XX:+UseParallelGC"]
    if heap:
        java.append("-Xmx" + heap)
    java.append("-Xss64m")
    # TLC unpacks the standard modules into a fresh directory under java.io.tmpdir on every run: keep that inside
    # the (self-cleaning) work directory instead of littering /tmp
    jtmp = os.path.join(workdir, "jtmp")
    os.makedirs(jtmp, exist_ok=True)
    java.append("-Djava.io.tmpdir=" + jtmp)
    if dfs:
        java.append("-Dtlc2.tool.queue.IStateQueue=StateDeque")
    cp = "/opt/veriftools/tla/tla2tools.jar:/opt/veriftools/tla/CommunityModules-deps.jar"
    cp = _classpath()
    args = java + ["-cp", cp, "tlc2.TLC", "-metadir", meta, "-config", cfgname,
                   "-workers", str(workers or NCPU), "-noGenerateSpecTE"]
    if simulate:
        args += ["-simulate", simulate]
        if depth:
            args += ["-depth", str(depth)]
    if seed is not None:
        args += ["-seed", str(seed)]
    if dump:
        args += ["-dump", "dot,actionlabels", dump]
    args += list(extra)
    args.append(module + ".tla")
    t0 = time.time()
    try:
        p = subprocess.run(args, cwd=workdir, stdout=subprocess.PIPE, stderr=subprocess.STDOUT, text=True,
                           timeout=timeout)
    except subprocess.TimeoutExpired:
        raise Machinery("TLC timed out after %ds: %s" % (timeout, module))
    res = TLCResult(p.returncode, p.stdout, time.time() - t0)
    res.cmd = "tlc " + " ".join(args[args.index("tlc2.TLC") + 1:])
    shutil.rmtree(meta, ignore_errors=True)
    return res


_cp = None


def _classpath():
    global _cp
    if _cp:
        return _cp
    # reuse the classpath of the installed `tlc` wrapper (CommunityModules included)
    wrapper = shutil.which("tlc")
    cp = None
    if wrapper:
        try:
            txt = open(wrapper).read()
            m = re.search(r"-cp\s+\"?([^\s\"]+)", txt)
            if m:
                cp = m.group(1)
        except Exception:
            pass
    if not cp:
        d = "/opt/veriftools/tla"
        cp = ":".join(os.path.join(d, f) for f in sorted(os.listdir(d)) if f.endswith(".jar"))
    _cp = cp
    return cp


def copy_specs(workdir, names):
    for n in names:
        shutil.copyfile(os.path.join(SPEC, n + ".tla"), os.path.join(workdir, n + ".tla"))


# ---------------------------------------------------------------------------
# known findings


def known_findings():
    known, fixed = [], []
    if os.path.exists(KNOWN):
        for line in open(KNOWN):
            line = line.strip()
            if line.startswith("known:"):
                d = dict(re.findall(r"(\w+)=(\S+)", line))
                d["text"] = line
                known.append(d)
            elif line.startswith("fixed:"):
                fixed.append(line)
    return known, fixed


# ---------------------------------------------------------------------------
# evidence / verdicts


class Check:
    def __init__(self, prop, tier, seed):
        self.prop = prop
        self.tier = tier
        self.seed = seed
        self.t0 = time.time()
        self.states = 0
        self.transitions = 0
        self.traces = 0
        self.evaluations = 0
        self.nontrivial = 0
        self.samples = []
        self.assumptions = []
        self.tlc_cmds = []
        self.notes = {}
        self.exhaustive = True
        self.drift = 0
        self.violations = 0
        self.known_reproduced = []
        self.rule = ""

    def add_tlc(self, res, label):
        self.states += res.distinct
        self.transitions += res.generated
        self.tlc_cmds.append({"what": label, "cmd": res.cmd, "generated": res.generated,
                              "distinct": res.distinct, "wall_s": round(res.wall, 1)})

    def sample(self, s):
        if len(self.samples) < 3:
            self.samples.append(s)

    def write(self):
        os.makedirs(EVIDENCE, exist_ok=True)
        cov = {
            "states": max(self.states, 0),
            "transitions": max(self.transitions, 0),
            "traces_validated_against_impl": self.traces,
            "samples": self.samples if self.samples else ["(none)"],
            "evaluations": self.evaluations,
            "distinct_nontrivial": self.nontrivial,
            "rule": self.rule,
            "exhaustive": bool(self.exhaustive and self.drift == 0),
            "drift_steps": self.drift,
            "known_findings_reproduced": self.known_reproduced,
            "tlc_runs": self.tlc_cmds,
        }
        cov.update(self.notes)
        ev = {
            "property_id": self.prop,
            "tier": self.tier,
            "seed": self.seed,
            "level": "model_checking",
            "coverage": cov,
            "assumptions": self.assumptions,
            "wall_s": round(time.time() - self.t0, 1),
            "violations": self.violations,
        }
        with open(os.path.join(EVIDENCE, self.prop + ".json"), "w") as f:
            json.dump(ev, f, indent=1)

    def known(self, fid, what):
        line = "KNOWN-FINDING: property=%s %s" % (self.prop, what)
        print(line)
        self.known_reproduced.append(fid)

    def violation(self, replay_obj, why):
        os.makedirs(REPLAY, exist_ok=True)
        path = os.path.join(REPLAY, "%s-%d-%d.json" % (self.prop, self.seed, int(time.time())))
        replay_obj = dict(replay_obj)
        replay_obj["property"] = self.prop
        replay_obj["why"] = why
        with open(path, "w") as f:
            json.dump(replay_obj, f, indent=1)
        self.violations += 1
        self.write()
        print("VIOLATION property=%s replay=%s" % (self.prop, path))
        print("  " + why.replace("\n", "\n  "))
        sys.stdout.flush()
        sys.exit(1)

    def finish(self):
        self.write()
        print("OK property=%s tier=%s seed=%d states=%d transitions=%d traces=%d steps=%d drift=%d wall=%.0fs" % (
            self.prop, self.tier, self.seed, self.states, self.transitions, self.traces, self.evaluations,
            self.drift, time.time() - self.t0))
        sys.exit(0)


def parallel(fn, items, n=None):
    with ThreadPoolExecutor(max_workers=n or NCPU) as ex:
        return list(ex.map(fn, items))
