"""C06 / C01: request routing through the cluster (Proxy.tla + cmd/peng on real in-process clusters)."""
import engine
import vp
from checks import prop, REPLAYERS

P_INV = ["AtMostOneHop", "HandlerRunsBounded", "LocalPreferred", "ForwardedNeverForwards",
         "ServedOnlyByRealUpstream", "DeregOnlyWhereHandled", "OutcomeWhenDone", "SettledServes"]
C06_TRACE = ["AtMostOneHop", "HandlerRunsBounded", "LocalPreferred", "ForwardedNeverForwards",
             "ServedOnlyByRealUpstream", "DeregOnlyWhereHandled", "EntryRuns", "NoStepViolation"]
C01_TRACE = ["NoStepViolation"]
TRACE_CONSTS = {"Node": {"a", "b", "c", "d"}, "MaxGone": 4}


def model(chk, label, nodes, timeout=2400, max_gone=0):
    with vp.Scratch("mc-" + label) as d:
        vp.copy_specs(d, ["Proxy"])
        res = vp.run_tlc(d, "Proxy", vp.cfg_text("Spec", {"Node": set(nodes), "MaxGone": max_gone}, P_INV, ["Terminates"], None),
                         timeout=timeout)
    chk.add_tlc(res, label)
    if res.error or res.violated or res.queue != 0:
        raise vp.Machinery("Proxy.tla model %s failed (%s):\n%s" % (label, res.violated, res.out[-3000:]))


@prop("C06")
def c06(chk):
    quick = chk.tier == "quick"
    chk.rule = ("(1) Proxy.tla: every placement of real upstreams x every assignment of beliefs per node (any "
                "subset of the others, right or wrong) x which nodes are up x entry node x client-supplied forward "
                "header x which nodes hold only an upstream that has sent go-away, for 2..4 nodes; (2) the same configurations on a live cluster: real upstream listeners where "
                "the placement says (a go-away upstream on at most one other node), beliefs injected into every node's routing table through the public "
                "cluster.State API, one HTTP and one TCP-route request per configuration; observed: status, which "
                "node's upstream answered, proxy handler invocations per node (piko_proxy_requests_total deltas); "
                "judged by TLC (TraceP.tla)")
    chk.assumptions = ["all nodes are up in the live runs (dead peers are covered by C18)",
                       "handler invocations are read from /metrics after the in-flight gauge returns to 0"]
    model(chk, "C06-2nodes", ["a", "b"], max_gone=2)
    model(chk, "C06-3nodes", ["a", "b", "c"], max_gone=1 if quick else 3)
    if not quick:
        model(chk, "C06-4nodes", ["a", "b", "c", "d"], timeout=3000)
    v, st = engine.run(chk, "peng", {"mode": "c06", "n": 2}, "2-nodes", "TraceP", TRACE_CONSTS, C06_TRACE,
                       "peng-trace", what="the live cluster", strip=("mode", "n", "sample", "churn"))
    ops = dict(st["by_op"])
    n3 = {"mode": "c06", "n": 3, "sample": 250 if quick else 0, "goneSample": 0 if quick else 4000}
    v, st = engine.run(chk, "peng", n3, "3-nodes", "TraceP", TRACE_CONSTS, C06_TRACE, "peng-trace",
                       what="the live cluster", strip=("mode", "n", "sample", "churn", "goneSample"))
    for k, n in st["by_op"].items():
        ops[k] = ops.get(k, 0) + n
    chk.notes["executed_calls_by_action"] = ops
    chk.nontrivial = st.get("distinct_outcomes", 0)
    chk.rule += "; distinct_nontrivial = distinct (status, served-by, per-node handler runs) outcomes"
    chk.exhaustive = chk.exhaustive and not quick
    if ops.get("Route", 0) == 0:
        raise vp.Machinery("vacuous run")


@prop("C01")
def c01(chk):
    quick = chk.tier == "quick"
    chk.rule = ("(1) Proxy.tla incl. SettledServes (with beliefs equal to the truth every node serves E iff some up "
                "node has an upstream); (2) live clusters of 2-3 nodes: placements of up to 3 upstreams over "
                "(endpoint in {e, e1, e.x}) x node, each answering with its own endpoint and id; after the routing "
                "tables settled, one request per entry node x target endpoint x addressing mode (Host label, "
                "x-piko-endpoint with a conflicting Host, TCP route); then churn: upstreams of all endpoints "
                "connecting/disconnecting on random nodes with requests in flight; judged by TLC")
    chk.assumptions = ["'settled' = every node's /status/cluster/nodes equals every node's /status/upstream/endpoints",
                       "during churn a tunnelled TCP connection that is cut before the reply counts as refused",
                       "a settled request that is refused is re-issued once after everything has settled again and "
                       "is a violation only if refused again (a starved machine makes the 10 ms failure detectors of "
                       "the test clusters flag peers for a moment); more than 3 such re-issues per run = no verdict"]
    model(chk, "C01-3nodes", ["a", "b", "c"])
    ops = {}
    outcomes = 0
    transient = 0
    for n, sample, churn in ([(2, 14, 150), (3, 10, 150)] if quick else [(2, 0, 1000), (3, 0, 3000)]):
        v, st = engine.run(chk, "peng", {"mode": "c01", "n": n, "sample": sample, "churn": churn},
                           "%d-nodes" % n, "TraceP", TRACE_CONSTS, C01_TRACE, "peng-trace", what="the live cluster",
                           strip=("mode", "n", "sample", "churn"))
        for k, c in st["by_op"].items():
            ops[k] = ops.get(k, 0) + c
        outcomes += st.get("distinct_outcomes", 0)
        transient += st.get("transient_served", 0)
    chk.notes["executed_calls_by_action"] = ops
    chk.notes["refused_then_served_after_resettling"] = transient
    if transient > 3:
        raise vp.Machinery("%d settled requests were refused at first and served after the routing information had "
                           "settled again: the machine is too starved for the 10 ms gossip interval of the test "
                           "clusters (or the code is flaky); no verdict" % transient)
    chk.nontrivial = outcomes
    chk.rule += "; distinct_nontrivial = distinct (status, stamped endpoint) outcomes"
    chk.exhaustive = chk.exhaustive and not quick
    for need in ("Place", "Churn"):
        if ops.get(need, 0) == 0:
            raise vp.Machinery("vacuous run: no " + need)


def _replay(chk, obj):
    v, st = engine.run(chk, "peng", obj["sched"], "replay", "TraceP", TRACE_CONSTS, obj["invariants"], "peng-trace",
                       what="the live cluster")
    print("replay: not reproduced (%d observations, drift %d)" % (st.get("steps", 0), v.drift))


REPLAYERS["peng-trace"] = _replay
