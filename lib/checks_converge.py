"""C03: gossip converges. Model: Converge.tla (temporal property under fairness, no state constraint);
binding: after every random schedule the real nodes run fair sweeps (every ordered pair a full push-pull,
nothing lost) with a packet size between "the largest entry just fits" and "everything fits"; TLC judges
every leg (PullProgress) and the end state (Converged: exact equality of every live pair)."""
import gossip as G
import vp
from checks import prop, run_schedules

C03_TRACE_INV = ["KeysUnique", "PrefixConsistent", "NoStepViolation"]

F3_TEXT = ("F3 an entry whose encoding exceeds the maximum packet size minus the headers is never sent by "
           "datagram and every later version of that node stays behind it: the views never converge "
           "(site=encodeDelta sig=entry-size>max-packet-size-minus-headers)")


def converge_model(chk, label, consts, timeout=1500):
    with vp.Scratch("mc-" + label) as d:
        G._specs(d, "Converge")
        cfg = vp.cfg_text("CSpec", consts, [], ["EventuallyConverged", "ConvergenceIsStable", "PullProgress"],
                          "CView")
        res = vp.run_tlc(d, "Converge", cfg, timeout=timeout)
    chk.add_tlc(res, label)
    if res.error or res.violated or res.queue != 0:
        raise vp.Machinery("Converge.tla model %s failed (%s):\n%s" % (label, res.violated, res.out[-3000:]))


def f3_known(chk):
    known, _ = vp.known_findings()
    if not any(k.get("id") == "F3" and k.get("property") == "C03" for k in known):
        return
    big = "v" * 1500
    pkt = 1400  # the default cluster.gossip.max-packet-size
    beh = [["UpsertLocal", "a", "k1", "small"], ["UpsertLocal", "a", "k2", big], ["UpsertLocal", "a", "k3", "later"],
           ["Closure", pkt, 20]]
    sched = {"nodes": ["a", "b"], "initKnown": True, "behaviours": [beh]}
    with vp.Scratch("f3") as d:
        tp, stats = G.run_geng(d, sched, chk.seed, name="f3")
        v = G.validate(chk, tp, ["a", "b"], invariants=["NoStepViolation"], label="f3")
    chk.traces += 1
    chk.evaluations += stats.get("steps", 0)
    if v.violation and "Converged" in v.violation["step_violations"] and len(big) > pkt:
        chk.known("F3", F3_TEXT)
    else:
        chk.notes["f3_not_reproduced"] = True


def truncated_digests(chk):
    """Convergence when not even the digest fits: a packet size that holds 3 (or 2) of a node's 5 digest entries;
    the code sends a random selection each time, which is what lets every node be asked about eventually. After
    the cluster converged, the busiest node (highest version) and another one publish more; 40 fair sweeps later
    TLC checks exact equality of every live pair."""
    nodes = ["a", "b", "c", "d", "e"]
    behs = []
    for k in (3, 2):
        beh = []
        for n in nodes:
            beh.append(["UpsertLocal", n, "k1", "v-" + n])
        for i in range(12):
            beh.append(["UpsertLocal", "e", "k%d" % (i % 4), "hot%d" % i])
        beh.append(["Closure", -1, 30])
        beh += [["UpsertLocal", "e", "k1", "late1"], ["UpsertLocal", "e", "k5", "late2"],
                ["UpsertLocal", "a", "k2", "late3"], ["DeleteLocal", "e", "k0"], ["Sweeps", k, 40]]
        behs.append(beh)
    sched = {"nodes": nodes, "initKnown": True, "behaviours": behs}
    v, st = run_schedules(chk, sched, "truncated-digests", nodes, invariants=C03_TRACE_INV)
    if st.get("by_op", {}).get("ClosureEnd", 0) != 2 * len(behs):
        raise vp.Machinery("vacuous run: the truncated-digest sweeps did not run (%s)" % st.get("by_op"))


def own_rounds(chk):
    """Convergence when the exchanges are the ones the code starts itself (gossipRound's own choice of peers):
    four nodes, converged, then split 2|2 by mutual suspicion (every node still has a live peer on its own
    side), more updates on both sides, 30 periods in which every node runs its periodic round and every
    exchange it starts is carried out in full; TLC checks exact equality of every live pair at the end.
    A second behaviour does the same with one node suspected by everybody and a third without suspicion."""
    nodes = ["a", "b", "c", "d"]
    behs = []
    for split in ([("a", "c"), ("a", "d"), ("b", "c"), ("b", "d")], [("a", "d"), ("b", "d"), ("c", "d")], []):
        beh = []
        for n in nodes:
            beh.append(["UpsertLocal", n, "k1", "v-" + n])
        beh.append(["Closure", -1, 30])
        for x, y in split:
            beh += [["SetSuspect", x, y, True], ["SetSuspect", y, x, True]]
        for n in nodes:
            beh.append(["UpdateLiveness", n])
        beh += [["UpsertLocal", "a", "k2", "late-a"], ["UpsertLocal", "c", "k2", "late-c"], ["DeleteLocal", "d", "k1"],
                ["AutoRounds", 30]]
        behs.append(beh)
    sched = {"nodes": nodes, "initKnown": True, "behaviours": behs}
    v, st = run_schedules(chk, sched, "own-rounds", nodes, invariants=C03_TRACE_INV)
    if st.get("by_op", {}).get("ClosureEnd", 0) != 2 * len(behs) or st.get("by_op", {}).get("GossipRound", 0) == 0:
        raise vp.Machinery("vacuous run: the periodic rounds did not run (%s)" % st.get("by_op"))


@prop("C03")
def c03(chk):
    quick = chk.tier == "quick"
    chk.rule = ("(1) Converge.tla: quiet ~> ConvergedLive under weak fairness of every pair's rounds and every "
                "datagram's delivery, with truncating budgets, compaction and prior loss, no state constraint; "
                "(2) from the diverged state at the end of every seeded random schedule (loss, truncation, "
                "duplication, compaction, 4 nodes) the real nodes run fair sweeps until a sweep changes nothing; "
                "TLC checks PullProgress on every delivered delta and exact equality of every live pair at the end; "
                "(3) the same from nodes that first join each other over the stream; (4) packets too small for "
                "the digest; (5) exchanges chosen by the code's own periodic round, incl. a 2|2 split by mutual "
                "suspicion")
    chk.assumptions = ["every entry fits the maximum packet size (otherwise known finding F3)",
                       "fair closure = all ordered pairs round-robin, no loss (a network that eventually delivers)"]
    base = G.consts(Features={"compact", "lose"}, Budgets={2, 99})
    if quick:
        converge_model(chk, "C03-liveness", dict(base, MaxVer=2))
    else:
        # (strong fairness of the rounds makes the liveness check expensive: bounds fitted to minutes)
        converge_model(chk, "C03-liveness", dict(base, MaxVer=3), timeout=2400)
        converge_model(chk, "C03-liveness-3nodes-relay",
                       dict(G.consts(Features={"lose"}, Budgets={2, 99}), Node={"a", "b", "c"}, Key={"k1"},
                            Val={"x"}, MaxVer=1, Writers={"c"}), timeout=2400)
        converge_model(chk, "C03-liveness-3nodes-two-writers",
                       dict(G.consts(Features=set(), Budgets={99}), Node={"a", "b", "c"}, Key={"k1"},
                            Val={"x"}, MaxVer=1, Writers={"a", "c"}), timeout=2400)
    sched = {"nodes": ["a", "b", "c", "d"], "initKnown": True, "walks": 250 if quick else 4000,
             "depth": 60, "keys": ["k1", "k2", "k3", "a-much-longer-key-name-to-vary-sizes"],
             "vals": ["", "x", "y", "a-longer-value-to-vary-entry-sizes", "z" * 300],
             "writers": ["a", "b", "c", "d"], "masked": True, "crashers": [], "closure": True}
    v, st = run_schedules(chk, sched, "closures", sched["nodes"], invariants=C03_TRACE_INV)
    chk.nontrivial += st["steps"] - st["by_op"].get("Reset", 0)
    sched5 = dict(sched, nodes=["a", "b", "c", "d", "e"], walks=20 if quick else 500, depth=80,
                  writers=["a", "c", "e"])
    v, st2 = run_schedules(chk, sched5, "closures-5", sched5["nodes"], invariants=C03_TRACE_INV)
    chk.nontrivial += st2["steps"] - st2["by_op"].get("Reset", 0)
    ops = dict(st["by_op"])
    for k, n in st2["by_op"].items():
        ops[k] = ops.get(k, 0) + n
    chk.notes["executed_calls_by_action"] = ops
    chk.notes["closures"] = ops.get("ClosureEnd", 0)
    for need in ("ClosureEnd", "RecvDelta", "CompactLocal"):
        if ops.get(need, 0) == 0:
            raise vp.Machinery("vacuous run: the real code never executed " + need)
    # nodes that do not know each other: they join over the stream (the joiner already has state of its own), then
    # the same closures
    schedj = dict(sched, initKnown=False, streams=True, walks=60 if quick else 1500, depth=50)
    v, st3 = run_schedules(chk, schedj, "closures-join", schedj["nodes"], invariants=C03_TRACE_INV)
    chk.nontrivial += st3["steps"] - st3["by_op"].get("Reset", 0)
    if st3["by_op"].get("JoinStream", 0) == 0 or st3["by_op"].get("ClosureEnd", 0) == 0:
        raise vp.Machinery("vacuous run: no join closures (%s)" % st3["by_op"])
    truncated_digests(chk)
    own_rounds(chk)
    f3_known(chk)
