"""Engine G glue: TLC over Gossip.tla -> schedules -> real gossip nodes (geng) -> TraceG.tla."""
import glob
import json
import os
import re
import shutil
import subprocess
import time

import tlaparse
import vp

GOSSIP_MODULES = ["Gossip", "TraceG", "Routing", "TraceR"]

BASE_CONST = {
    "Node": {"a", "b"},
    "Key": {"k1", "k2"},
    "Val": {"", "x"},
    "MaxVer": 3,
    "MaxSlots": 2,
    "Writers": {"a"},
    "Crashers": set(),
    "Features": {"leave", "compact", "lose", "expire"},
    "Budgets": {2, 99},
    "InitKnown": True,
    "MaskF2": True,
    "MaskF4": True,
    "ObsInit": vp.Sub("NoObsInit"),
    "ObsUpdate": vp.Sub("NoObsUpdate"),
}

OBS_FOLD = {"ObsInit": vp.Sub("InitFoldOf"), "ObsUpdate": vp.Sub("FoldAll")}
OBS_ROUTING = {"ObsInit": vp.Sub("InitRTOf"), "ObsUpdate": vp.Sub("SyncAll")}

TRACE_INVARIANTS = ["KeysUnique", "ArmedConsistent", "NoFabrication", "PrefixConsistent",
                    "LocalNeverFlagged", "LeftOnlyByOwner", "NoStepViolation"]


def consts(**kw):
    c = dict(BASE_CONST)
    c.update(kw)
    return c


def _specs(workdir, module):
    for p in glob.glob(os.path.join(vp.SPEC, "*.tla")):
        vp.copy_specs(workdir, [os.path.basename(p)[:-4]])


def model_check(chk, label, constants, invariants, properties=(), view="View", module="Gossip",
                spec="Spec", timeout=1500, expect_violation=None, extra=()):
    """Exhaustive TLC run. With expect_violation=None any violation is a machinery
    failure (the model is fixed: it can only fail if the spec itself is wrong)."""
    with vp.Scratch("mc-" + label) as d:
        _specs(d, module)
        cfg = vp.cfg_text(spec, constants, invariants, properties, view, extra)
        res = vp.run_tlc(d, module, cfg, timeout=timeout)
    chk.add_tlc(res, label)
    if res.error:
        raise vp.Machinery("TLC failed on %s:\n%s" % (label, res.error))
    if expect_violation is None:
        if res.violated:
            raise vp.Machinery("model %s violates %s although the model is fixed; the specification is wrong:\n%s"
                               % (label, res.violated, res.out[-3000:]))
        if res.queue != 0:
            raise vp.Machinery("model %s did not finish" % label)
    return res


def gen_cover(chk, label, constants, module="Gossip", spec="Spec", view="View", max_len=80, timeout=900):
    """Complete transition cover of a small bounded model: list of behaviours (label lists)."""
    with vp.Scratch("cover-" + label) as d:
        _specs(d, module)
        cfg = vp.cfg_text(spec, constants, (), (), view)
        res = vp.run_tlc(d, module, cfg, dump=os.path.join(d, "graph"), timeout=timeout)
        if res.error or res.violated:
            raise vp.Machinery("TLC failed dumping the graph of %s:\n%s" % (label, res.out[-3000:]))
        inits, edges = tlaparse.parse_dot(os.path.join(d, "graph.dot"))
    chk.add_tlc(res, "graph:" + label)
    if not inits:
        raise vp.Machinery("no initial state in the dumped graph of " + label)
    paths, remaining = tlaparse.path_cover(inits, edges, max_len=max_len)
    cache = {}

    def lab(i):
        if i not in cache:
            cache[i] = tlaparse.parse_label(edges[i][2])
        return cache[i]

    behaviours = [[lab(i) for i in p] for p in paths]
    return behaviours, {"states": res.distinct, "edges": len(edges), "uncovered_edges": remaining,
                        "paths": len(paths), "steps": sum(len(p) for p in paths)}


def gen_sim(chk, label, constants, num, depth, seed, module="Gossip", spec="Spec", timeout=600, workers=8):
    """Seeded TLC simulation: list of behaviours (label lists)."""
    per = max(1, num // workers)
    with vp.Scratch("sim-" + label) as d:
        _specs(d, module)
        cfg = vp.cfg_text(spec, constants, (), (), None)
        os.makedirs(os.path.join(d, "sim"), exist_ok=True)
        res = vp.run_tlc(d, module, cfg, workers=workers, simulate="file=sim/s,num=%d" % per, depth=depth,
                         seed=seed, timeout=timeout)
        if res.rc != 0 and "Error" in res.out and "states generated" not in res.out:
            raise vp.Machinery("TLC simulation failed for %s:\n%s" % (label, res.out[-3000:]))
        behaviours = []
        for f in sorted(glob.glob(os.path.join(d, "sim", "s_*"))):
            b = tlaparse.parse_sim_file(f)
            if b:
                behaviours.append(b)
    m = re.search(r"The number of states generated: (\d+)", res.out)
    res.generated = int(m.group(1)) if m else sum(len(b) for b in behaviours)
    res.distinct = 0
    chk.tlc_cmds.append({"what": "simulate:" + label, "cmd": res.cmd, "generated": res.generated,
                         "behaviours": len(behaviours), "wall_s": round(res.wall, 1)})
    chk.transitions += res.generated
    return behaviours


def run_geng(workdir, sched, seed, name="trace"):
    """Executes the schedules on the real code. Returns (trace_path, stats)."""
    vp.build_harness(["geng"])
    sp = os.path.join(workdir, name + ".sched.json")
    tp = os.path.join(workdir, name + ".ndjson")
    stp = os.path.join(workdir, name + ".stats.json")
    with open(sp, "w") as f:
        json.dump(sched, f)
    p = subprocess.run([os.path.join(vp.HBIN, "geng"), "-schedules", sp, "-out", tp, "-stats", stp,
                        "-seed", str(seed)], stdout=subprocess.PIPE, stderr=subprocess.STDOUT, text=True,
                       timeout=3600)
    if p.returncode != 0:
        if p.returncode == 3 and "HANG:" in p.stdout:
            return tp, {"crash": "a call into the gossip code did not return within the watchdog period: "
                        + p.stdout[-2000:]}
        if "panic:" in p.stdout or "fatal error:" in p.stdout:
            return tp, {"crash": p.stdout[-6000:]}
        raise vp.Machinery("geng failed (%d):\n%s" % (p.returncode, p.stdout[-4000:]))
    return tp, json.load(open(stp))


def split_trace(trace_path, workdir, max_lines=9000):
    """Splits a trace into chunks at behaviour boundaries. Returns list of
    (chunk_path, [behaviour start line numbers within chunk])."""
    chunks = []
    cur = []
    cur_starts = []
    beh = []

    def flush_beh():
        nonlocal cur, cur_starts, beh
        if not beh:
            return
        if cur and len(cur) + len(beh) > max_lines:
            flush_chunk()
        cur_starts.append(len(cur) + 1)
        cur.extend(beh)
        beh = []

    def flush_chunk():
        nonlocal cur, cur_starts
        if not cur:
            return
        p = os.path.join(workdir, "chunk%04d.ndjson" % len(chunks))
        with open(p, "w") as f:
            f.writelines(cur)
        chunks.append((p, cur_starts))
        cur = []
        cur_starts = []

    with open(trace_path) as f:
        for line in f:
            if line.startswith('{"op":"Reset"'):
                flush_beh()
            beh.append(line)
    flush_beh()
    flush_chunk()
    return chunks


def trace_cfg(nodes, invariants, module_spec="TraceSpec", extra_consts=None):
    c = {
        "Node": set(nodes),
        "Key": {"k1"},
        "Val": {""},
        "MaxVer": 100000000,
        "MaxSlots": 64,
        "Writers": set(nodes),
        "Crashers": set(nodes),
        "Features": set(),
        "Budgets": {99},
        "InitKnown": False,
        "MaskF2": False,
        "MaskF4": False,
        "ObsInit": vp.Sub("NoObsInit"),
        "ObsUpdate": vp.Sub("NoObsUpdate"),
    }
    if extra_consts:
        c.update(extra_consts)
    inv = list(invariants)
    if "ForeignNodesAllowed" in inv:
        # hostile input (C13) may name nodes that do not exist; that is not what is judged there
        inv.remove("ForeignNodesAllowed")
    else:
        inv = ["OnlyRealNodes"] + inv
    return vp.cfg_text(module_spec, c, inv + ["DriftReport"], (), None, ["POSTCONDITION Consumed"])


class TraceVerdict:
    def __init__(self):
        self.steps = 0
        self.drift = 0
        self.f2 = 0
        self.f4 = 0
        self.f5 = 0
        self.violation = None  # dict(invariant, chunk, line, names, behaviour_cmds, state)
        self.tlc = []


def validate(chk, trace_path, nodes, invariants=None, module="TraceG", extra_consts=None, label="trace",
             max_lines=9000, cfg=None):
    """Validates a geng trace against the trace specification. Layer B (invariants on
    the implementation's state) decides; layer A (drift) is counted."""
    invariants = invariants or TRACE_INVARIANTS
    v = TraceVerdict()
    with vp.Scratch("tv-" + label) as d:
        chunks = split_trace(trace_path, d, max_lines=max_lines)

        def one(i):
            path, starts = chunks[i]
            wd = os.path.join(d, "w%04d" % i)
            os.makedirs(wd)
            _specs(wd, module)
            os.replace(path, os.path.join(wd, "trace.ndjson"))
            res = vp.run_tlc(wd, module, cfg or trace_cfg(nodes, invariants, extra_consts=extra_consts),
                             workers=1, timeout=1800, heap="3g")
            out = {"i": i, "res": res, "starts": starts, "wd": wd}
            if res.violated or res.error or not res.ok:
                out["lines"] = open(os.path.join(wd, "trace.ndjson")).read().splitlines()
            return out

        results = vp.parallel(one, list(range(len(chunks))))
        for r in results:
            res = r["res"]
            v.tlc.append(res)
            for c in res.printed("TRACE-COUNTERS"):
                v.drift += int(c[0])
                v.f2 += int(c[1])
                v.f4 += int(c[2])
                if len(c) > 3:
                    v.f5 += int(c[3])
                if int(c[0]) > 0:
                    # keep the trace of a chunk the specification could not follow, for diagnosis
                    try:
                        dd = os.path.join(vp.OUT, "drift")
                        os.makedirs(dd, exist_ok=True)
                        old = sorted(glob.glob(os.path.join(dd, "*.ndjson")), key=os.path.getmtime)
                        for f in old[:-9]:
                            os.remove(f)
                        shutil.copyfile(os.path.join(r["wd"], "trace.ndjson"),
                                        os.path.join(dd, "%s-%s-%d.ndjson" % (module, label, int(time.time()))))
                    except OSError:
                        pass
            tr = res.printed("TRACE-RESULT")
            if res.violated:
                m = re.search(r"^/\\ l = (\d+)", res.out[res.out.rfind("Error: Invariant"):] if "Error: Invariant" in res.out else res.out, re.M)
                # the last printed state is the violating one
                ls = re.findall(r"^/\\ l = (\d+)", res.out, re.M)
                l = int(ls[-1]) if ls else 0
                line_no = l - 1  # state l was produced by consuming line l-1
                names = re.findall(r"^/\\ viol = (\{.*\})", res.out, re.M)
                starts = r["starts"]
                start = max([s for s in starts if s <= line_no] or [1])
                lines = r["lines"][start - 1:line_no]
                cmds = [json.loads(json.loads(x)["cmd"]) for x in lines[1:]]
                if v.violation is None:
                    # keep what the real code was observed to do, for diagnosis (the walks of the
                    # gossip engine are not bit-reproducible: the code shuffles with math/rand)
                    try:
                        dd = os.path.join(vp.OUT, "observed")
                        os.makedirs(dd, exist_ok=True)
                        old = sorted(glob.glob(os.path.join(dd, "*.ndjson")), key=os.path.getmtime)
                        for f in old[:-19]:
                            os.remove(f)
                        with open(os.path.join(dd, "%s-%s-%s-%d.ndjson" % (chk.prop, module, label,
                                                                        int(time.time()))), "w") as f:
                            f.write("\n".join(lines) + "\n")
                    except OSError:
                        pass
                    v.violation = {
                        "invariant": res.violated,
                        "step_violations": names[-1] if names else "{}",
                        "line": line_no - start + 1,
                        "cmds": cmds,
                        "last_step": json.loads(lines[-1]) if lines else None,
                    }
                v.steps += line_no
                continue
            if res.error or not res.ok or not tr:
                raise vp.Machinery("trace validation failed to run (chunk %d):\n%s" % (r["i"], res.out[-4000:]))
            consumed, total = int(tr[-1][0]), int(tr[-1][1])
            if consumed != total:
                raise vp.Machinery("trace chunk %d consumed only %d of %d lines" % (r["i"], consumed, total))
            v.steps += total
    chk.transitions += sum(r.generated for r in v.tlc)
    chk.states += sum(r.distinct for r in v.tlc)
    chk.tlc_cmds.append({"what": "trace-validation:" + label, "chunks": len(v.tlc), "steps": v.steps,
                         "drift": v.drift, "f2_signatures": v.f2, "f4_signatures": v.f4, "f5_signatures": v.f5,
                         "cmd": v.tlc[0].cmd if v.tlc else ""})
    chk.drift += v.drift
    return v
