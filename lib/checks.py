"""Per-property checks. Each function takes a vp.Check and either returns (held) or
calls chk.violation(...) (exit 1) or raises vp.Machinery (exit 2)."""
import json
import random
import os

import gossip as G
import vp

REGISTRY = {}
REPLAYERS = {}


def prop(pid):
    def deco(fn):
        REGISTRY[pid] = fn
        return fn
    return deco


def replay(chk, path):
    obj = json.load(open(path))
    kind = obj.get("kind")
    if kind == "gossip-trace":
        return replay_gossip(chk, obj)
    if kind == "ueng-trace":
        import checks_upstreams
        return checks_upstreams.replay_u(chk, obj)
    if kind in REPLAYERS:
        return REPLAYERS[kind](chk, obj)
    raise vp.Machinery("unknown replay kind %r" % kind)


# ---------------------------------------------------------------------------
# gossip family (engine G): C02 C03 C04 C11 C13 C14 C17


def _ser_consts(c):
    out = {}
    for k, x in (c or {}).items():
        if isinstance(x, vp.Sub):
            out[k] = {"__sub__": x.s}
        elif isinstance(x, vp.Raw):
            out[k] = {"__raw__": x.s}
        elif isinstance(x, (set, frozenset)):
            out[k] = {"__set__": sorted(x)}
        else:
            out[k] = x
    return out


def _deser_consts(c):
    out = {}
    for k, x in (c or {}).items():
        if isinstance(x, dict) and "__sub__" in x:
            out[k] = vp.Sub(x["__sub__"])
        elif isinstance(x, dict) and "__raw__" in x:
            out[k] = vp.Raw(x["__raw__"])
        elif isinstance(x, dict) and "__set__" in x:
            out[k] = set(x["__set__"])
        else:
            out[k] = x
    return out


def _judge_trace(chk, v, sched_meta, what, invariants=None, module="TraceG", extra_consts=None):
    """Turns a trace verdict into VIOLATION / ok."""
    if v.violation:
        viol = v.violation
        why = "%s: invariant %s %s fails on the state observed from the real code after step %d (%s)" % (
            what, viol["invariant"], viol["step_violations"], viol["line"] - 1,
            json.dumps(viol["cmds"][-1]) if viol["cmds"] else "init")
        chk.violation({"kind": "gossip-trace", "sched": dict(sched_meta, behaviours=[viol["cmds"]]),
                       "invariant": viol["invariant"], "step_violations": viol["step_violations"],
                       "invariants": invariants, "module": module, "extra_consts": _ser_consts(extra_consts)}, why)


def _geng_checks(chk, stats, what):
    if "crash" in stats:
        chk.violation({"kind": "gossip-crash", "output": stats["crash"]},
                      "%s: the gossip code panicked:\n%s" % (what, stats["crash"][-1500:]))


def run_schedules(chk, sched, label, nodes, invariants=None, module="TraceG", extra_consts=None,
                  post=None):
    """schedules -> real code -> trace validation; returns (verdict, stats)."""
    extra_consts = dict(extra_consts or {})
    if sched.get("maxSlots"):
        extra_consts["MaxSlots"] = sched["maxSlots"]
    with vp.Scratch("g-" + label) as d:
        tp, stats = G.run_geng(d, sched, chk.seed, name=label)
        _geng_checks(chk, stats, label)
        if post:
            post(tp, stats)
        v = G.validate(chk, tp, nodes, invariants=invariants, module=module, extra_consts=extra_consts,
                       label=label)
        # samples for the evidence file
        if stats.get("steps"):
            with open(tp) as f:
                lines = []
                for i, line in enumerate(f):
                    if i > 12:
                        break
                    lines.append(json.loads(line)["cmd"])
            chk.sample({"engine": "geng", "what": label, "first_calls": lines})
    chk.traces += stats.get("behaviours", 0)
    chk.evaluations += stats.get("steps", 0)
    # the replay file re-executes the failing behaviour only (not the walks / sweeps it came from); what the real
    # code shuffles at random (the order of a digest) may differ on replay
    meta = {k: sched[k] for k in sched if k not in ("behaviours", "walks", "hostile", "sweeps", "closure")}
    _judge_trace(chk, v, meta, label, invariants, module, extra_consts)
    return v, stats


def replay_gossip(chk, obj):
    sched = obj["sched"]
    nodes = sched["nodes"]
    module = obj.get("module", "TraceG")
    v, stats = run_schedules(chk, sched, "replay", nodes, invariants=obj.get("invariants"), module=module,
                             extra_consts=_deser_consts(obj.get("extra_consts")))
    print("replay: not reproduced (%d steps, drift %d)" % (stats.get("steps", 0), v.drift))


def gossip_plan(chk, tier):
    """Bounds per tier (fitted to measured state counts, see DESIGN.md section 6)."""
    if tier == "quick":
        return {
            "mc": G.consts(MaxVer=3),
            "covers": [G.consts(Key={"k1"}, MaxVer=3, MaxSlots=1),
                       G.consts(Key={"k1"}, MaxVer=2, Features={"leave", "lose", "expire"}),
                       # nodes that do not know each other yet: joining over the stream, leaving
                       G.consts(Key={"k1"}, Val={"x"}, MaxVer=2, MaxSlots=1, InitKnown=False,
                                Features={"join", "leave"}, Budgets={99})],
            "sim": (G.consts(Node={"a", "b", "c"}, Key={"k1", "k2"}, MaxVer=4, MaxSlots=3,
                             Writers={"a"}, Features={"leave", "compact", "lose", "expire", "dup"},
                             Budgets={2, 3, 99}), 160, 45),
            "walks": (1200, 80),
        }
    return {
        "mc": G.consts(MaxVer=4),
        "mc2": G.consts(Node={"a", "b", "c"}, Key={"k1"}, Val={"", "x"}, MaxVer=3, MaxSlots=2,
                        Writers={"a"}, Features={"leave", "lose", "expire"}, Budgets={2, 99}),
        "covers": [G.consts(Key={"k1"}, MaxVer=3),
                   G.consts(Node={"a", "b", "c"}, Key={"k1"}, Val={"x"}, MaxVer=2, MaxSlots=1, InitKnown=False,
                            Features={"join", "leave"}, Budgets={99})],
        "sim": (G.consts(Node={"a", "b", "c"}, Key={"k1", "k2"}, MaxVer=5, MaxSlots=4,
                         Writers={"a", "c"}, Features={"leave", "compact", "lose", "expire", "dup", "shuffle"},
                         Budgets={2, 3, 4, 99}), 2400, 60),
        "walks": (15000, 100),
    }


C02_INV = ["KeysUnique", "ArmedConsistent", "NoFabrication", "PrefixConsistent", "LeftOnlyByOwner"]
C02_PROPS = ["OwnStateOnlyLocal", "VersionMonotone"]
C02_TRACE_INV = ["KeysUnique", "NoFabrication", "PrefixConsistent", "NoStepViolation"]


def f4_known(chk):
    """Known finding F4: reproduce on the real code; the model shows it when unmasked."""
    known, _ = vp.known_findings()
    if not any(k.get("id") == "F4" and k.get("property") == chk.prop for k in known):
        return
    beh = [
        ["UpsertLocal", "a", "k1", "x"], ["UpsertLocal", "a", "k2", "x"], ["LeaveLocal", "a"],
        # b learns version 1 only (packet cut after header + 1 entry)
        ["StartRound", "b", "a", 0], ["DoRecvDigest", 1, False, 2], ["RecvDelta", 1, False], ["Lose", 2],
        # b asks again (digest says a:1) - the datagram is delayed
        ["StartRound", "b", "a", 0],
        # meanwhile b learns the rest (incl. left) through another round, and expires a
        ["StartRound", "b", "a", 0], ["RecvDigest", 2, False, 0, False], ["RecvDelta", 2, False], ["Lose", 3],
        ["RemoveExpired", "b", 1],
        # the delayed request is answered now: delta computed against a:1, applied onto nothing
        ["RecvDigest", 1, False, 0, False], ["RecvDelta", 1, False],
    ]
    sched = {"nodes": ["a", "b"], "initKnown": True, "behaviours": [beh]}
    with vp.Scratch("f4") as d:
        tp, stats = G.run_geng(d, sched, chk.seed, name="f4")
        v = G.validate(chk, tp, ["a", "b"], invariants=["KeysUnique"], label="f4-signature")
        v2 = G.validate(chk, tp, ["a", "b"], invariants=["PrefixConsistentAll"], label="f4-harm")
    chk.traces += 1
    chk.evaluations += stats.get("steps", 0)
    if v.f4 > 0 and v2.violation and v2.violation["invariant"] == "PrefixConsistentAll":
        chk.known("F4", "F4 a delta answering a digest sent before the view was expired is applied onto the "
                  "re-created view: the view reports the owner's version without the entries below it "
                  "(site=applyDeltaEntry sig=answered-digest-version>receiver-version)")
    else:
        chk.notes["f4_not_reproduced"] = True


F4_TEXT = {
    "C04": "F4 a delta answering a digest sent before the view was expired is applied onto the re-created view: "
           "the gossip view has caught up with the owner but proxy_addr was skipped, so the node stays pending "
           "and its endpoints never reach the routing table (site=applyDeltaEntry "
           "sig=answered-digest-version>receiver-version)",
    "C11": "F4 a delta answering a digest sent before the view was expired is applied onto the re-created view: "
           "entries at or below the digest's version (e.g. the left marker) are skipped (site=applyDeltaEntry "
           "sig=answered-digest-version>receiver-version)",
}


def f4_known_generic(chk, pid):
    """F4 on the routing table (C04) / membership (C11): reproduce on the real code."""
    known, _ = vp.known_findings()
    if not any(k.get("id") == "F4" and k.get("property") == pid for k in known):
        return
    routing = pid == "C04"
    if routing:
        beh = [
            ["AddEndpoint", "a", "e1"],
            # b learns version 1 (proxy_addr) only: cut after header + 1 entry
            ["StartRound", "b", "a", 0], ["DoRecvDigest", 1, False, 2], ["RecvDelta", 1, False], ["Lose", 2],
            # b asks again (digest says a:1); the datagram is delayed
            ["StartRound", "b", "a", 0],
            # b considers a unreachable and expires it
            ["SetSuspect", "b", "a", True], ["UpdateLiveness", "b"], ["RemoveExpired", "b", 1],
            # the delayed request is answered now and applied onto the re-created view
            ["RecvDigest", 1, False, 0, False], ["RecvDelta", 1, False],
        ]
        harm = "CaughtUpMirrorsAll"
    else:
        beh = [
            ["UpsertLocal", "a", "k1", "x"], ["LeaveLocal", "a"],
            ["StartRound", "b", "a", 0], ["DoRecvDigest", 1, False, 2], ["RecvDelta", 1, False], ["Lose", 2],
            ["StartRound", "b", "a", 0],
            ["SetSuspect", "b", "a", True], ["UpdateLiveness", "b"], ["RemoveExpired", "b", 1],
            ["RecvDigest", 1, False, 0, False], ["RecvDelta", 1, False],
        ]
        harm = "PrefixConsistentAll"
    sched = {"nodes": ["a", "b"], "initKnown": True, "behaviours": [beh]}
    if routing:
        sched.update({"routing": True, "endpoints": ["e1"]})
    with vp.Scratch("f4") as d:
        tp, stats = G.run_geng(d, sched, chk.seed, name="f4")
        v = G.validate(chk, tp, ["a", "b"], invariants=["KeysUnique"], label="f4-signature")
        v2 = G.validate(chk, tp, ["a", "b"], invariants=[harm], label="f4-harm")
    chk.traces += 1
    chk.evaluations += stats.get("steps", 0)
    if v.f4 > 0 and v2.violation and v2.violation["invariant"] == harm:
        chk.known("F4", F4_TEXT[pid])
    else:
        chk.notes["f4_not_reproduced"] = True


def gossip_family(chk, mc_inv, mc_props, trace_inv, require_ops=(), module="Gossip", tmodule="TraceG", spec="Spec",
                  view="View", routing=False, mc_label=None, extra_consts=None, plan=None):
    """The common shape of the gossip-family checks:
    exhaustive TLC on the bounded model -> complete transition cover executed on the real code ->
    seeded TLC simulations of a larger model executed on the real code -> seeded random schedules
    with byte-level budgets; every execution judged by TLC against the trace specification."""
    plan = plan or gossip_plan(chk, chk.tier)
    label = mc_label or chk.prop
    xc = extra_consts or {}
    ops = {}

    def account(st):
        for k, n in st.get("by_op", {}).items():
            ops[k] = ops.get(k, 0) + n
        chk.nontrivial += st.get("steps", 0) - st.get("by_op", {}).get("Reset", 0)

    def sched_base(nodes):
        b = {"nodes": nodes, "initKnown": True, "streams": True}
        if routing:
            b.update({"routing": True, "endpoints": ["e1", "e2"]})
        return b

    mc = dict(plan["mc"], **xc)
    G.model_check(chk, label + "-exhaustive", mc, mc_inv, mc_props, view=view, module=module, spec=spec,
                  timeout=plan.get("mc_timeout", 1500))
    if "mc2" in plan:
        G.model_check(chk, label + "-relay", dict(plan["mc2"], **xc), mc_inv, mc_props, view=view, module=module, spec=spec,
                      timeout=2400)
    covers = []
    for i, cc in enumerate(plan["covers"]):
        cc = dict(cc, **xc)
        nodes = sorted(cc["Node"])
        beh, info = G.gen_cover(chk, "%s-cover%d" % (label, i), cc, module=module, spec=spec, view="ViewCover")
        # a cover too long to replay in reasonable time is sampled (seeded); the check then does not claim to
        # have executed every transition of that model
        cap = 120000 if chk.tier == "quick" else 500000
        if info["steps"] > cap:
            rnd = random.Random(chk.seed * 977 + i)
            order = list(range(len(beh)))
            rnd.shuffle(order)
            keep, total = [], 0
            for j in order:
                if total + len(beh[j]) > cap:
                    continue
                keep.append(j)
                total += len(beh[j])
            beh = [beh[j] for j in sorted(keep)]
            info = dict(info, sampled_paths=len(beh), sampled_steps=total, uncovered_edges=-1)
        covers.append(info)
        chk.exhaustive = chk.exhaustive and info["uncovered_edges"] == 0
        v, st = run_schedules(chk, dict(sched_base(nodes), behaviours=beh, maxSlots=cc["MaxSlots"],
                                        initKnown=cc.get("InitKnown", True)),
                              "cover%d" % i, nodes, invariants=trace_inv, module=tmodule)
        account(st)
    chk.notes["covers"] = covers
    sc, num, depth = plan["sim"]
    sc = dict(sc, **xc)
    nodes3 = sorted(sc["Node"])
    beh = G.gen_sim(chk, label + "-sim", sc, num, depth, chk.seed, module=module, spec=spec)
    v, st = run_schedules(chk, dict(sched_base(nodes3), behaviours=beh, maxSlots=sc["MaxSlots"]), "sim", nodes3,
                          invariants=trace_inv, module=tmodule)
    account(st)
    walks, wdepth = plan["walks"]
    sched = dict(sched_base(["a", "b", "c", "d"]), walks=walks, depth=wdepth,
                 keys=["k1", "k2", "k3"], vals=["", "x", "y", "a-longer-value-to-vary-entry-sizes"],
                 writers=["a", "b", "d"], masked=True, crashers=["d"])
    v, st = run_schedules(chk, sched, "walks", sched["nodes"], invariants=trace_inv, module=tmodule)
    account(st)
    chk.notes["walk_signatures"] = {"f2": v.f2, "f4": v.f4, "f5": v.f5}
    # the same walks from nodes that do not know each other: they join over the stream and first hear of the
    # others through a third node
    sched2 = dict(sched, initKnown=False, walks=max(20, walks // 5))
    v, st = run_schedules(chk, sched2, "walks-join", sched2["nodes"], invariants=trace_inv, module=tmodule)
    account(st)
    chk.notes["executed_calls_by_action"] = ops
    missing = [o for o in require_ops if ops.get(o, 0) == 0]
    if missing:
        raise vp.Machinery("vacuous run: the real code never executed %s" % missing)


@prop("C02")
def c02(chk):
    chk.rule = ("behaviours = complete TLC transition cover of bounded Gossip.tla models + seeded TLC "
                "simulations of a larger one + seeded random schedules with byte-level packet budgets, each "
                "executed on real pkg/gossip nodes and judged by TLC (TraceG.tla); distinct_nontrivial = "
                "executed calls other than resets")
    chk.assumptions = [
        "node ids are never reused by a restarted node",
        "known finding F4 is excused only on views touched by a step with its signature",
        "the harness drives clusterState/packetListener sequentially (one call at a time)",
    ]
    gossip_family(chk, C02_INV, C02_PROPS, C02_TRACE_INV,
                  require_ops=["UpsertLocal", "DeleteLocal", "CompactLocal", "LeaveLocal", "StartRound",
                               "RecvDigest", "RecvDelta", "Lose", "RemoveExpired"])
    f4_known(chk)


# ---------------------------------------------------------------------------
C17_INV = ["KeysUnique", "MatchesRef", "VersionsWellFormed"]
C17_PROPS = ["FreshVersionOnChange", "NoVersionOnNoop", "CompactKeepsLive"]
C17_TRACE_INV = ["KeysUnique", "MatchesRef", "VersionsWellFormed", "PrefixConsistent", "NoFabrication",
                 "NoStepViolation"]
SYNC_TAIL = [["StartRound", "b", "a", 0], ["RecvDigest", 1, False, 0, False], ["RecvDelta", 1, False],
             ["Lose", 2]]


@prop("C17")
def c17(chk):
    chk.rule = ("every call sequence of the local API (upsert incl. empty values and repeated values, delete incl. "
                "absent keys, compaction with thresholds 0..2, leave) of a bounded OwnMap.tla model = complete "
                "transition cover executed on a real clusterState, followed by a full synchronisation of an "
                "observer; plus random schedules; judged by TLC (TraceG.tla: MatchesRef, FreshVersionOnChange, "
                "NoVersionOnNoop, CompactKeepsLive, PrefixConsistent at equal versions)")
    chk.assumptions = ["keys starting with _internal: are not written by users",
                       "CompactLocal is not called on an empty state (indexes entries[-1]; outside the property)"]
    quick = chk.tier == "quick"
    mc = G.consts(Node={"a", "b"}, Key={"k1", "k2"} if quick else {"k1", "k2", "k3"},
                  Val={"", "x", "y"}, MaxVer=6 if quick else 8, Writers={"a"},
                  Features={"leave", "compact"}, InitKnown=True)
    G.model_check(chk, "C17-exhaustive", mc, C17_INV, C17_PROPS, view="OView", module="OwnMap", spec="OSpec")
    cc = G.consts(Node={"a", "b"}, Key={"k1", "k2"}, Val={"", "x"} if quick else {"", "x", "y"},
                  MaxVer=5 if quick else 6, Writers={"a"}, Features={"leave", "compact"}, InitKnown=True)
    beh, info = G.gen_cover(chk, "C17-cover", cc, module="OwnMap", spec="OSpec", view="OView")
    chk.notes["cover"] = info
    chk.exhaustive = info["uncovered_edges"] == 0
    beh = [b + SYNC_TAIL for b in beh]
    v, st = run_schedules(chk, {"nodes": ["a", "b"], "initKnown": True, "behaviours": beh}, "cover",
                          ["a", "b"], invariants=C17_TRACE_INV)
    chk.nontrivial += st["steps"] - st["by_op"].get("Reset", 0)
    ops = dict(st["by_op"])
    sched = {"nodes": ["a", "b", "c"], "initKnown": True, "walks": 1200 if quick else 15000, "depth": 80,
             "keys": ["k1", "k2", "k3", "k4"], "vals": ["", "x", "y"], "writers": ["a", "b"], "masked": True,
             "crashers": []}
    v, st = run_schedules(chk, sched, "walks", sched["nodes"], invariants=C17_TRACE_INV)
    chk.nontrivial += st["steps"] - st["by_op"].get("Reset", 0)
    for k, n in st["by_op"].items():
        ops[k] = ops.get(k, 0) + n
    chk.notes["executed_calls_by_action"] = ops
    for need in ("UpsertLocal", "DeleteLocal", "CompactLocal", "LeaveLocal", "RecvDelta"):
        if ops.get(need, 0) == 0:
            raise vp.Machinery("vacuous run: the real code never executed " + need)


# ---------------------------------------------------------------------------
C14_TRACE_INV = ["KeysUnique", "FoldEqualsView", "NoStepViolation"]


def c14_plan(tier):
    p = gossip_plan(None, tier)
    if tier == "quick":
        p["mc"] = G.consts(MaxVer=3, Features={"leave", "compact", "lose", "expire"})
        p["covers"] = [G.consts(Key={"k1"}, MaxVer=3, MaxSlots=1),
                       G.consts(Key={"k1"}, Val={"x"}, MaxVer=1, MaxSlots=1,
                                Features={"leave", "lose", "expire", "liveness"})]
    else:
        p["mc"] = G.consts(MaxVer=3, Features={"leave", "compact", "lose", "expire", "liveness"})
        p.pop("mc2", None)
    return p


@prop("C14")
def c14(chk):
    chk.rule = ("the recording watcher's notifications from every executed call are folded by TLC (GossipObs.tla "
                "FoldEv) and compared with the view read back from the node after every call; behaviours as for "
                "C02 (transition cover, simulations, random schedules) with compaction, leave, liveness, expiry")
    chk.assumptions = ["notifications about internal keys (_internal:*) are ignored by the fold",
                       "the order of the deletions announced by one compaction marker is not part of the property"]
    gossip_family(chk, ["FoldEqualsView"], [], C14_TRACE_INV, module="Watcher", extra_consts=G.OBS_FOLD,
                  plan=c14_plan(chk.tier),
                  require_ops=["UpsertLocal", "DeleteLocal", "CompactLocal", "LeaveLocal", "RecvDelta",
                               "RemoveExpired", "UpdateLiveness"])


import checks_routing  # noqa: E402,F401
import checks_membership  # noqa: E402,F401
import checks_packet  # noqa: E402,F401
import checks_converge  # noqa: E402,F401
import checks_upstreams  # noqa: E402,F401
import checks_fd  # noqa: E402,F401
import checks_rebalance  # noqa: E402,F401
import checks_auth  # noqa: E402,F401
import checks_proxy  # noqa: E402,F401
import checks_life  # noqa: E402,F401
import checks_loss  # noqa: E402,F401
import checks_http  # noqa: E402,F401
import checks_ws  # noqa: E402,F401
import checks_locks  # noqa: E402,F401
