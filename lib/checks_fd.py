"""C12: the accrual failure detector (FailureDetector.tla + cmd/feng on the real detector)."""
import os
import re
import shutil
import subprocess
import time

import engine
import gossip as G
import vp
from checks import prop, REPLAYERS

FD_INV = ["SizeIsRecent", "SumIsLastW", "SumIsBuffer", "BufferIsLastW", "FirstSampleIsBootstrap", "IndexInRange", "Accuracy",
          "Completeness", "ZeroAtArrival"]
FD_TRACE = FD_INV + ["NoStepViolation"]


def fd_consts(w, b, maxgap, maxlen):
    return {"W": w, "B": b, "Gaps": set(range(1, maxgap + 1)), "MaxLen": maxlen, "Theta": 20}


def add_sample_text(module):
    """the body of AddSample in a module, without the ghost history"""
    path = os.path.join(vp.SPEC, module + ".tla")
    if not os.path.exists(path):
        path = os.path.join(vp.SPEC, "apalache", module + ".tla")   # modules that EXTEND Apalache.tla
    s = open(path).read()
    m = re.search(r"^AddSample\(x\) ==\n(.*?)\n\n", s, re.S | re.M)
    if not m:
        raise vp.Machinery("AddSample not found in " + module)
    lines = [re.sub(r"\s+", " ", x).strip() for x in m.group(1).splitlines() if "hist'" not in x]
    return [x for x in lines if x]


def induction(chk):
    """Unbounded safety of the window bookkeeping: FDInd.tla (AddSample verbatim, no ghost history) with an
    inductive invariant discharged by Apalache for every window size 1..8, any bootstrap interval and samples of
    any size: Init => IndInv and IndInv /\\ Next => IndInv'."""
    if add_sample_text("FDInd") != add_sample_text("FailureDetector"):
        raise vp.Machinery("AddSample in FDInd.tla differs from FailureDetector.tla")
    with vp.Scratch("apalache-C12") as d:
        shutil.copyfile(os.path.join(vp.SPEC, "apalache", "FDInd.tla"), os.path.join(d, "FDInd.tla"))
        for what, args in (("base", ["--init=Init", "--length=0"]), ("step", ["--init=IndInit", "--length=1"])):
            t0 = time.time()
            cmd = ["apalache-mc", "check", "--cinit=CInit", "--inv=IndInv", "--out-dir=" + os.path.join(d, "out")] \
                + args + ["FDInd.tla"]
            try:
                p = subprocess.run(cmd, cwd=d, stdout=subprocess.PIPE, stderr=subprocess.STDOUT, text=True,
                                   timeout=900)
            except subprocess.TimeoutExpired:
                raise vp.Machinery("apalache timed out on the %s case of FDInd.tla" % what)
            ok = "The outcome is: NoError" in p.stdout
            chk.tlc_cmds.append({"what": "apalache-induction-" + what, "cmd": " ".join(cmd[:2] + cmd[2:4] + args),
                                 "outcome": "NoError" if ok else "Error", "wall_s": round(time.time() - t0, 1)})
            if not ok:
                raise vp.Machinery("the inductive invariant of FDInd.tla fails (%s case):\n%s" % (what, p.stdout[-2000:]))
    chk.notes["unbounded_induction"] = "IndInv of FDInd.tla: W in 1..8, any B, any gaps, runs of any length"


@prop("C12")
def c12(chk):
    quick = chk.tier == "quick"
    chk.rule = ("(1) FailureDetector.tla exhaustively: every arrival sequence up to MaxLen over the gap set for "
                "several window sizes; (2) a complete transition cover of a bounded model replayed into the real "
                "accrualFailureDetector with the window read back after every arrival and the level queried at "
                "0, 1, a random point, the largest gap and far beyond the threshold; (3) seeded long sequences "
                "(several times the window) for W in {1,2,3,5,50}; all judged by TLC (TraceF.tla). The detector "
                "tracks three peers: removals, level queries for a peer without a window and calls naming other "
                "peers are interleaved, and every peer's view is validated as a trace of its own (a call naming "
                "another peer must leave this peer's window unchanged)")
    chk.assumptions = ["time in whole milliseconds; the level is compared to the exact fraction within 1e-4"]
    for w, b, g, n in ([(2, 2, 2, 7), (3, 4, 3, 7)] if quick else [(1, 2, 3, 8), (2, 2, 3, 9), (3, 4, 3, 9), (4, 2, 2, 11)]):
        G.model_check(chk, "C12-W%d" % w, fd_consts(w, b, g, n), FD_INV, [], view=None, module="FailureDetector")
    induction(chk)
    cw, cb, cg, cn = (3, 4, 2, 7) if quick else (3, 4, 3, 8)
    cc = fd_consts(cw, cb, cg, cn)
    beh, info = G.gen_cover(chk, "C12-cover", cc, module="FailureDetector", view=None, max_len=40)
    chk.notes["cover"] = info
    chk.exhaustive = info["uncovered_edges"] == 0
    tc = dict(cc, MaxLen=1000000)
    ops = {}
    v, st = engine.run(chk, "feng", {"w": cw, "b": cb, "maxGap": cg, "behaviours": beh}, "cover", "TraceF", tc,
                       FD_TRACE, "feng-trace", what="the real failure detector")
    ops.update(st["by_op"])
    # a peer whose rhythm changes by more than the threshold factor (one gap of 100 after gaps of 1, and back): every
    # sequence of the bounded model over these two gaps
    jc = {"W": 2, "B": 2, "Gaps": {1, 100}, "MaxLen": 6 if quick else 8, "Theta": 20}
    G.model_check(chk, "C12-jump", jc, FD_INV, [], view=None, module="FailureDetector")
    beh, info = G.gen_cover(chk, "C12-cover-jump", jc, module="FailureDetector", view=None, max_len=40)
    chk.notes["cover_jump"] = info
    chk.exhaustive = chk.exhaustive and info["uncovered_edges"] == 0
    v, st = engine.run(chk, "feng", {"w": 2, "b": 2, "maxGap": 100, "behaviours": beh}, "cover-jump", "TraceF",
                       dict(jc, MaxLen=1000000), FD_TRACE, "feng-trace", what="the real failure detector")
    for k, n in st["by_op"].items():
        ops[k] = ops.get(k, 0) + n
    for w, mg in ([(2, 9), (50, 9), (3, 3000)] if quick else [(1, 9), (2, 9), (3, 9), (5, 9), (50, 9), (2, 3000),
                                                               (5, 3000), (50, 3000)]):
        sched = {"w": w, "b": 4, "maxGap": mg, "walks": 40 if quick else 600, "depth": 4 * w + 20}
        v, st = engine.run(chk, "feng", sched, "walks-W%d-G%d" % (w, mg), "TraceF", fd_consts(w, 4, mg, 1000000), FD_TRACE,
                           "feng-trace", what="the real failure detector")
        for k, n in st["by_op"].items():
            ops[k] = ops.get(k, 0) + n
    chk.notes["executed_calls_by_action"] = ops
    for need in ("Report", "Query", "QueryNew", "Remove", "Other"):
        if ops.get(need, 0) == 0:
            raise vp.Machinery("vacuous run: never executed " + need)


REPLAYERS["feng-trace"] = lambda chk, obj: engine.replay(chk, obj, "the real failure detector")
