"""C09 / C10: authentication and token confinement (Auth.tla + cmd/aeng on real protected nodes)."""
import engine
import vp
from checks import prop, REPLAYERS

ALL4 = {"HS", "RS", "ES", "none"}
C09_INV = ["AcceptIffValid", "NoneNeverAccepted", "UnsignedNeverAccepted", "ExpiredNeverAccepted",
           "XPikoTakesPrecedence"]
C10_INV = ["CheckedIsRouted", "OnlyPermitted", "TenantIsolation", "DefaultDisabledWhenTenants",
           "UnknownTenantRefused"]
TRACE_INV = ["NoStepViolation"]


def fs(*xs):
    return frozenset(xs)


def base_consts():
    return {
        "KeySets": {fs("HS")}, "Auds": {""}, "Isss": {""},
        "Algs": {"HS"}, "Signers": {"conf"}, "Tampers": {"none"}, "Exps": {"future"}, "Nbfs": {"absent"},
        "TokAuds": {"absent"}, "TokIsss": {"absent"}, "Kids": {"known"},
        "XHdrs": {"absent"}, "AuthzHdrs": {"good"}, "Schemes": {"Bearer"},
        "TenantTables": {fs()}, "TenantHdrs": {""}, "SignedFor": {"default"},
        "ClaimSets": {fs()}, "HostLabels": {"e"}, "EpHeaders": {""}, "PathEps": {""},
        "NoDiscs": {False},
    }


def tla_sets(c):
    """frozensets of frozensets -> TLA text via vp.Raw"""
    out = {}
    for k, v in c.items():
        if isinstance(v, (set, frozenset)) and any(isinstance(x, frozenset) for x in v):
            out[k] = vp.Raw("{" + ", ".join(vp.tla(set(x)) for x in sorted(v, key=lambda s: sorted(s))) + "}")
        else:
            out[k] = v
    return out


def model(chk, label, c, invariants, timeout=2400):
    with vp.Scratch("mc-" + label) as d:
        vp.copy_specs(d, ["Auth"])
        res = vp.run_tlc(d, "Auth", vp.cfg_text("Spec", tla_sets(c), invariants, [], None), timeout=timeout)
    chk.add_tlc(res, label)
    if res.error or res.violated or res.queue != 0:
        raise vp.Machinery("Auth.tla model %s failed (%s):\n%s" % (label, res.violated, res.out[-3000:]))


def trace_consts():
    return tla_sets(base_consts())


@prop("C09")
def c09(chk):
    quick = chk.tier == "quick"
    chk.rule = ("(1) Auth.tla: every (key configuration, audience/issuer configuration, token variation, header "
                "form) as an initial state; the code-shaped decision equals the property-shaped one; (2) for every "
                "key configuration a real two-node cluster with that authentication on all three ports; every "
                "route of the REAL gin route tables (plus unregistered paths and admin forwarding) x every "
                "single-defect token/header variation plus seeded mixes, sent as real HTTP requests with really "
                "signed tokens; TLC (TraceAuth.tla) checks OnlyAcceptedRun and RejectedReachesNoUpstream; (3) time: a token "
                "that expires in 3 s presented to every port before (twice) and after its expiry, and a token first "
                "presented after its expiry, with and without disable_disconnect_on_expiry; (4) every route of an "
                "upstream port that has a tenant table, with and without a default key, x missing/foreign/valid tokens")
    chk.assumptions = ["a handler behind the middleware ran iff the status is not 401",
                       "the JWKS of the test holds one RSA key (kid k1)", "HS256/RS256/ES256 stand for their families"]
    c = base_consts()
    keysets = {fs("HS"), fs("RS"), fs("ES"), fs("HS", "RS"), fs("HS", "RS", "ES"), fs("JWKS")}
    c.update({"KeySets": keysets, "Auds": {"", "A"}, "Isss": {"", "I"}, "Algs": ALL4,
              "Signers": {"conf", "other", "confusion", "unsigned", "empty"}, "Kids": {"known", "unknown", "absent"},
              "XHdrs": {"absent", "good", "bad"}, "AuthzHdrs": {"absent", "good", "bad"},
              "Schemes": {"Bearer", "bearer", "Basic", "none"}})
    if quick:
        c.update({"Tampers": {"none", "sig"}, "Exps": {"absent", "past", "future", "soon"}, "Nbfs": {"absent", "future"},
                  "TokAuds": {"absent", "A", "B"}, "TokIsss": {"absent", "I"}})
    else:
        c.update({"Tampers": {"none", "header", "payload", "sig"}, "Exps": {"absent", "past", "future", "soon"},
                  "Nbfs": {"absent", "past", "future"}, "TokAuds": {"absent", "A", "B"},
                  "TokIsss": {"absent", "I", "J"}})
    c["NoDiscs"] = {False, True}
    model(chk, "C09-table", c, C09_INV)
    ks = [["HS"], ["RS"], ["JWKS"]] if quick else [["HS"], ["RS"], ["ES"], ["HS", "RS"], ["HS", "RS", "ES"], ["JWKS"]]
    sched = {"keySets": ks, "auds": ["", "A"] if not quick else [""], "isss": ["", "I"] if not quick else ["I"],
             "random": 40 if quick else 400}
    v, st = engine.run(chk, "aeng", sched, "requests", "TraceAuth", trace_consts(), TRACE_INV, "aeng-trace",
                       what="the real protected ports", strip=("random", "keySets", "auds", "isss"))
    chk.notes["executed_calls_by_action"] = st.get("by_op")
    chk.nontrivial = st.get("distinct_outcomes", 0)
    chk.rule += "; distinct_nontrivial = distinct (port, status, served) outcomes observed"
    for need in ("Auth", "TenantAuth"):
        if st.get("by_op", {}).get(need, 0) == 0:
            raise vp.Machinery("vacuous run: no " + need)


@prop("C10")
def c10(chk):
    chk.rule = ("(1) Auth.tla: every (endpoint claim set, Host label, x-piko-endpoint header) and every (tenant "
                "table, tenant header, signing key) as an initial state; (2) the same cases as real requests: the "
                "proxy port with stamping upstreams on several endpoints (which endpoint's upstream served it), the "
                "TCP route, real upstream listeners trying to register, real tenant tables; judged by TLC")
    chk.assumptions = ["tokens are otherwise valid HS256 tokens"]
    c = base_consts()
    c.update({"ClaimSets": {fs(), fs("e"), fs("e1"), fs("e", "e1"), fs("other")},
              "HostLabels": {"", "e", "e1", "other"}, "EpHeaders": {"", "e", "e1", "other"},
              "PathEps": {"", "e", "other"},
              "TenantTables": {fs(), fs("t1"), fs("t1", "t2")}, "TenantHdrs": {"", "t1", "t2", "tx"},
              "SignedFor": {"default", "t1", "t2"}})
    model(chk, "C10-table", c, C10_INV)
    v, st = engine.run(chk, "aeng", {"c10": True, "deep": chk.tier != "quick"}, "requests", "TraceAuth",
                       trace_consts(), TRACE_INV, "aeng-trace", what="the real protected ports", strip=("c10",))
    chk.notes["executed_calls_by_action"] = st.get("by_op")
    chk.nontrivial = st.get("distinct_outcomes", 0)
    chk.rule += "; distinct_nontrivial = distinct (port, status, served) outcomes observed"
    for need in ("Endpoint", "Listen", "Tenant"):
        if st.get("by_op", {}).get(need, 0) == 0:
            raise vp.Machinery("vacuous run: no " + need)


def _replay(chk, obj):
    obj = dict(obj)
    obj["consts"] = {}
    v, st = engine.run(chk, "aeng", obj["sched"], "replay", "TraceAuth", trace_consts(), obj["invariants"],
                       "aeng-trace", what="the real protected ports")
    print("replay: not reproduced (%d calls, drift %d)" % (st.get("steps", 0), v.drift))


REPLAYERS["aeng-trace"] = _replay
