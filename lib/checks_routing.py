"""C04: the routing table mirrors what each node advertises (Routing.tla + engine G with the
real syncer and cluster.State attached to every gossip node)."""
import gossip as G
import vp
from checks import gossip_family, gossip_plan, prop, f4_known_generic

C04_INV = ["CaughtUpMirrors", "StatusTracks", "NoOrphans", "PendingOnlyWhileIncomplete", "KeysUnique"]
C04_TRACE_INV = ["KeysUnique", "CaughtUpMirrors", "StatusTracks", "NoOrphans", "NoStepViolation"]


def c04_plan(tier):
    rc = dict(G.OBS_ROUTING, EpUsed={"endpoint:e1"}, MaxCount=2, Key={"k1"}, Val={"x"})
    if tier == "quick":
        return rc, {
            "mc": G.consts(MaxVer=5, Features={"leave", "compact", "lose", "expire"}),
            "covers": [G.consts(MaxVer=4, MaxSlots=1, Features={"leave", "compact", "lose", "expire"})],
            "sim": (G.consts(Node={"a", "b", "c"}, MaxVer=6, MaxSlots=3, Writers={"a", "c"},
                             Features={"leave", "compact", "lose", "expire", "dup", "liveness"},
                             Budgets={2, 3, 99}), 160, 50),
            "walks": (1200, 80),
        }
    rc = dict(rc, EpUsed={"endpoint:e1", "endpoint:e2"})
    return rc, {
        "mc": G.consts(MaxVer=6, Features={"leave", "compact", "lose", "expire"}),
        "mc2": G.consts(Node={"a", "b", "c"}, MaxVer=3, MaxSlots=1, Writers={"a"},
                        Features={"leave", "lose", "expire"}, Budgets={99}),
        "covers": [G.consts(MaxVer=4, MaxSlots=2, Features={"leave", "compact", "lose", "expire"})],
        "sim": (G.consts(Node={"a", "b", "c"}, MaxVer=8, MaxSlots=4, Writers={"a", "c"},
                         Features={"leave", "compact", "lose", "expire", "dup", "liveness", "shuffle"},
                         Budgets={2, 3, 4, 99}), 2400, 70),
        "walks": (15000, 100),
    }


@prop("C04")
def c04(chk):
    chk.rule = ("behaviours as for C02 with the REAL syncer and cluster.State attached as the gossip watcher of "
                "every node; endpoint additions/removals are made through cluster.State (AddLocalEndpoint/"
                "RemoveLocalEndpoint) so the real onLocalEndpointUpdate publishes them; after every call the "
                "pending set, the routing table (Nodes()) and LookupEndpoint(e) of every node are read back and "
                "judged by TLC: CaughtUpMirrors, StatusTracks, NoOrphans, LookupSound")
    chk.assumptions = ["owners publish proxy_addr and admin_addr before anything else (syncer.Sync)",
                       "known finding F4 is excused only on views touched by a step with its signature"]
    rc, plan = c04_plan(chk.tier)
    gossip_family(chk, C04_INV, [], C04_TRACE_INV, module="Routing", spec="RSpec", extra_consts=rc,
                  routing=True, plan=plan,
                  require_ops=["UpsertLocal", "DeleteLocal", "CompactLocal", "LeaveLocal", "RecvDelta",
                               "RemoveExpired"])
    f4_known_generic(chk, "C04")
