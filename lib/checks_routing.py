"""C04: the routing table mirrors what each node advertises (Routing.tla + engine G with the
real syncer and cluster.State attached to every gossip node)."""
import gossip as G
import vp
from checks import gossip_family, gossip_plan, prop, f4_known_generic, run_schedules

C04_INV = ["CaughtUpMirrors", "StatusTracks", "NoOrphans", "AllKnownTracked", "PendingOnlyWhileIncomplete", "KeysUnique"]
C04_TRACE_INV = ["KeysUnique", "CaughtUpMirrors", "StatusTracks", "NoOrphans", "AllKnownTracked", "NoStepViolation"]


F5_TEXT = ("F5 a node that leaves and then compacts re-publishes proxy_addr/admin_addr with versions above its "
           "old left marker; an observer that first hears of it through a relay holding the old marker and one new "
           "address is told 'leave' while the node is still pending, the syncer discards the pending node and "
           "ignores everything it learns about it afterwards: the observer has caught up with the left node but "
           "its routing table does not list it (other observers list it as left) "
           "(site=syncer.OnLeave sig=leave-while-pending)")


def f5_listed():
    known, _ = vp.known_findings()
    return any(k.get("id") == "F5" and k.get("property") == "C04" for k in known)


def trace_inv():
    """known finding F5 is excused (on views with its signature only) while KNOWN_FINDINGS.txt lists it"""
    if f5_listed():
        return C04_TRACE_INV
    return [("CaughtUpMirrorsNoF5" if x == "CaughtUpMirrors" else x) for x in C04_TRACE_INV]


def f5_known(chk):
    """F5: reproduce on the real code (signature + harm), otherwise the entry is stale."""
    if not f5_listed():
        return
    beh = [
        ["LeaveLocal", "a"], ["AddEndpoint", "a", "e1"], ["RemoveEndpoint", "a", "e1"],
        # b learns everything a has published (proxy_addr 1, admin_addr 2, left 3, tombstone 5)
        ["StartRound", "a", "b", 0], ["RecvDigest", 1, False, 0, False], ["RecvDelta", 1, False],
        ["RecvDigest", 2, False, 0, False], ["RecvDelta", 1, False],
        # a compacts: proxy_addr 6, admin_addr 7, left 8, compaction marker 9
        ["CompactLocal", "a", 1],
        # b learns the first re-versioned entry only (cut after the node header and one entry)
        ["StartRound", "a", "b", 0], ["RecvDigest", 1, False, 0, False], ["DoRecvDigest", 1, False, 2],
        ["RecvDelta", 1, False],
        # c first hears of a's state through b: admin_addr 2, left 3, tombstone 5, proxy_addr 6
        ["StartRound", "c", "b", 0], ["RecvDigest", 1, False, 0, False], ["RecvDelta", 1, False], ["Lose", 2],
        # c catches up with a itself
        ["StartRound", "a", "c", 0], ["RecvDigest", 1, False, 0, False], ["RecvDelta", 1, False],
        ["RecvDigest", 2, False, 0, False], ["RecvDelta", 1, False],
    ]
    nodes = ["a", "b", "c"]
    sched = {"nodes": nodes, "initKnown": True, "routing": True, "endpoints": ["e1"], "behaviours": [beh]}
    with vp.Scratch("f5") as d:
        tp, stats = G.run_geng(d, sched, chk.seed, name="f5")
        v = G.validate(chk, tp, nodes, invariants=C04_TRACE_INV, label="f5-signature")
        v2 = G.validate(chk, tp, nodes, invariants=["CaughtUpMirrorsNoF5"], label="f5-harm")
    chk.traces += 1
    chk.evaluations += stats.get("steps", 0)
    if v.f5 > 0 and not v.violation and v2.violation and v2.violation["invariant"] == "CaughtUpMirrorsNoF5":
        chk.known("F5", F5_TEXT)
    else:
        chk.notes["f5_not_reproduced"] = True


def race_expiry(chk):
    """The expiry sweep of a node raced (two goroutines) against incoming gossip about the very node it expires -
    a peer that is considered unreachable but is alive. Whichever way they interleave, the gossip state and the
    syncer must agree afterwards (AllKnownTracked, NoOrphans, CaughtUpMirrors). The only concurrent scenario of
    the gossip engine: the notifications of one state are ordered by its mutex, which is what is being relied on."""
    quick = chk.tier == "quick"
    it = [["StartRound", "b", "a", 0], ["RecvDigest", 1, False, 0, False], ["RecvDelta", 1, False],
          ["RecvDigest", 2, False, 0, False], ["RecvDelta", 1, False],
          ["SetSuspect", "a", "b", True], ["UpdateLiveness", "a"], ["RaceExpiry", "a", "b"]]
    beh = [["AddEndpoint", "b", "e1"]] + it * 40
    nodes = ["a", "b", "c"]
    sched = {"nodes": nodes, "initKnown": True, "routing": True, "endpoints": ["e1"],
             "behaviours": [beh] * (5 if quick else 100)}
    v, st = run_schedules(chk, sched, "race-expiry", nodes, invariants=trace_inv(), module="TraceG")
    chk.notes["expiry_races"] = st.get("by_op", {}).get("RaceExpiry", 0)
    if st.get("by_op", {}).get("RaceExpiry", 0) == 0:
        raise vp.Machinery("vacuous run: no expiry sweep was raced")


def c04_plan(tier):
    rc = dict(G.OBS_ROUTING, EpUsed={"endpoint:e1"}, MaxCount=2, Key={"k1"}, Val={"x"})
    if tier == "quick":
        return rc, {
            "mc": G.consts(MaxVer=5, Features={"leave", "compact", "lose", "expire"}),
            "covers": [G.consts(MaxVer=4, MaxSlots=1, Features={"leave", "compact", "lose", "expire"})],
            "sim": (G.consts(Node={"a", "b", "c"}, MaxVer=6, MaxSlots=3, Writers={"a", "c"},
                             Features={"leave", "compact", "lose", "expire", "dup", "liveness"},
                             Budgets={2, 3, 99}), 160, 50),
            "walks": (1200, 80),
        }
    rc = dict(rc, EpUsed={"endpoint:e1", "endpoint:e2"})
    return rc, {
        "mc": G.consts(MaxVer=6, Features={"leave", "compact", "lose", "expire"}),
        "mc2": G.consts(Node={"a", "b", "c"}, MaxVer=3, MaxSlots=1, Writers={"a"},
                        Features={"leave", "lose", "expire"}, Budgets={99}),
        "covers": [G.consts(MaxVer=4, MaxSlots=2, Features={"leave", "compact", "lose", "expire"})],
        "sim": (G.consts(Node={"a", "b", "c"}, MaxVer=8, MaxSlots=4, Writers={"a", "c"},
                         Features={"leave", "compact", "lose", "expire", "dup", "liveness", "shuffle"},
                         Budgets={2, 3, 4, 99}), 2400, 70),
        "walks": (15000, 100),
    }


@prop("C04")
def c04(chk):
    chk.rule = ("behaviours as for C02 with the REAL syncer and cluster.State attached as the gossip watcher of "
                "every node; endpoint additions/removals are made through cluster.State (AddLocalEndpoint/"
                "RemoveLocalEndpoint) so the real onLocalEndpointUpdate publishes them; after every call the "
                "pending set, the routing table (Nodes()) and LookupEndpoint(e) of every node are read back and "
                "judged by TLC: CaughtUpMirrors, StatusTracks, NoOrphans, LookupSound")
    chk.assumptions = ["owners publish proxy_addr and admin_addr before anything else (syncer.Sync)",
                       "known finding F4 is excused only on views touched by a step with its signature",
                       "known finding F5 is excused only for a node that the observer's syncer was told had left "
                       "while it was pending; the node must then stay absent and be left in the gossip view"]
    rc, plan = c04_plan(chk.tier)
    gossip_family(chk, C04_INV, [], trace_inv(), module="Routing", spec="RSpec", extra_consts=rc,
                  routing=True, plan=plan,
                  require_ops=["UpsertLocal", "DeleteLocal", "CompactLocal", "LeaveLocal", "RecvDelta",
                               "RemoveExpired"])
    race_expiry(chk)
    f4_known_generic(chk, "C04")
    f5_known(chk)
