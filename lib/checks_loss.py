"""C18: losing a node (Cluster.tla + cmd/peng mode c18: real piko processes, SIGTERM / SIGKILL)."""
import os

import engine
import gossip as G
import vp
from checks import prop, REPLAYERS

CL_INV = ["VersionsInRange", "StoppedNodeAdvertisesNothing", "LeftViewsAreEmpty", "LeftOnlyAfterLeave", "NeverRouteToLeft",
          "NotifiedStopRoutingAtOnce"]
CL_PROPS = ["EventuallyRecovered", "StopTerminates"]
# trace validation: three processes a, b, c; one listener per endpoint; the failure detector of a loaded
# machine may suspect a live node for a while
TRACE_CONSTS = {"Node": {"a", "b", "c"}, "Lsn": {"e1", "e2"}, "MaxNotify": 4, "AwaitDereg": True, "Flaky": True}


def model(chk, label, c, timeout=2400):
    c = dict(c, AwaitDereg=True, Flaky=False)
    with vp.Scratch("mc-" + label) as d:
        vp.copy_specs(d, ["Cluster"])
        res = vp.run_tlc(d, "Cluster", vp.cfg_text("Spec", c, CL_INV, CL_PROPS, None), timeout=timeout)
    chk.add_tlc(res, label)
    if res.error or res.violated or res.queue != 0:
        raise vp.Machinery("Cluster.tla model %s failed (%s):\n%s" % (label, res.violated, res.out[-3000:]))


def model_d6(chk, c):
    """The design of the pinned tree (Shutdown() does not wait for the handlers to deregister) must violate
    LeftViewsAreEmpty / StoppedNodeAdvertisesNothing in the model: the invariants are not vacuous."""
    c = dict(c, AwaitDereg=False, Flaky=False)
    with vp.Scratch("mc-C18-d6") as d:
        vp.copy_specs(d, ["Cluster"])
        res = vp.run_tlc(d, "Cluster", vp.cfg_text("Spec", c, CL_INV, (), None), timeout=600)
    chk.add_tlc(res, "C18-model-without-await (must fail)")
    if res.violated not in ("StoppedNodeAdvertisesNothing", "LeftViewsAreEmpty"):
        raise vp.Machinery("Cluster.tla without AwaitDereg should violate StoppedNodeAdvertisesNothing: %s\n%s"
                           % (res.violated, res.out[-2000:]))


def relay_scenarios(chk):
    """'the rest follow through gossip' on the real gossip nodes (engine G): the leaving node's notification
    reaches one peer only (as in a cluster with more peers than it notifies, or when it is killed in the middle
    of leaving); the others must learn that it left - and what it last advertised - from that peer. Judged by
    TLC on TraceG.tla: DepartureSpreads (ConvergedKnown) at the fixpoint of fair exchanges among the survivors."""
    from checks import run_schedules
    nodes = ["a", "b", "c", "d"]
    behs = []
    for notified in ("b", "c"):
        for crash in (True, False):
            beh = [["UpsertLocal", "a", "k1", "x"], ["UpsertLocal", "b", "k2", "y"], ["Closure", -1, 30],
                   ["UpsertLocal", "a", "k3", "last-words"], ["DeleteLocal", "a", "k1"],
                   ["LeaveLocal", "a"], ["LeaveStream", "a", notified]]
            if crash:
                beh.append(["Crash", "a"])
            beh.append(["Closure", -1, 30])
            behs.append(beh)
    sched = {"nodes": nodes, "initKnown": True, "streams": True, "behaviours": behs}
    v, st = run_schedules(chk, sched, "relay", nodes,
                          invariants=["KeysUnique", "PrefixConsistent", "LeftOnlyByOwner", "NoStepViolation"])
    if st.get("by_op", {}).get("ClosureEnd", 0) == 0 or st.get("by_op", {}).get("LeaveStream", 0) == 0:
        raise vp.Machinery("vacuous run: the relay scenarios did not execute")


def build_piko():
    out = os.path.join(vp.HBIN, "piko")
    os.makedirs(vp.HBIN, exist_ok=True)
    rc, o = vp.sh(["go", "build", "-o", out, "."], cwd=vp.REPO, env=vp.go_env(), timeout=1500)
    if rc != 0:
        raise vp.Machinery("building the piko binary failed:\n" + o[-3000:])
    return out


def cases(tier, seed):
    allc = [[v, ph, k] for v in ("a", "b", "c") for ph in ("idle", "attached", "inflight", "streaming", "midshutdown")
            for k in (False, True) if not (ph == "midshutdown" and k)]
    if tier == "quick":
        # six scenarios, rotating with the seed so that repeated runs cover all of them
        pick = [["a", "attached", False], ["b", "attached", True], ["c", "inflight", False],
                ["a", "inflight", True], ["b", "midshutdown", False], ["c", "idle", False],
                ["a", "streaming", True], ["b", "streaming", False]]
        rot = seed % 3
        names = ["a", "b", "c"]
        return [[names[(names.index(v) + rot) % 3], ph, k] for v, ph, k in pick]
    return allc


B_INV = ["WithinBounds", "NeverGivesUpWhenForever", "GivesUpExactlyAfter"]


def retry_policy(chk):
    """The listeners' reconnect loop retries with pkg/backoff (retries = 0: for ever); the start-up join with
    retries = 5. Backoff.tla exhaustively for small durations, then the real policy called the way the loops call
    it (a fresh value per loop), every call judged by TLC (TraceB.tla)."""
    quick = chk.tier == "quick"
    for label, c in (("forever", {"Retries": 0, "Min": 10, "Max": 100, "MaxCalls": 8}),
                     ("bounded", {"Retries": 3, "Min": 10, "Max": 100, "MaxCalls": 7}),
                     ("min-above-max", {"Retries": 0, "Min": 50, "Max": 20, "MaxCalls": 5})):
        G.model_check(chk, "C18-backoff-" + label, c, B_INV, ["Doubles", "StaysAtCap"], view=None, module="Backoff")
    ms = 1000000
    for label, r, mn, mx, calls in (("client", 0, 1 * ms, 100 * ms, 40), ("join", 5, 1 * ms, 60 * ms, 9),
                                    ("min-above-max", 0, 3 * ms, 2 * ms, 6), ("equal", 2, 5 * ms, 5 * ms, 5)):
        sched = {"retries": r, "minNs": mn, "maxNs": mx, "loops": 50 if quick else 2000, "calls": calls}
        v, st = engine.run(chk, "beng", sched, "backoff-" + label, "TraceB",
                           {"Retries": r, "Min": mn, "Max": mx, "MaxCalls": 1000000}, B_INV + ["NoStepViolation"],
                           "beng-trace", what="the real retry policy", strip=("loops", "calls"))
        if st.get("by_op", {}).get("Call", 0) == 0:
            raise vp.Machinery("vacuous run: no Backoff() call")


@prop("C18")
def c18(chk):
    quick = chk.tier == "quick"
    chk.rule = ("(1) Cluster.tla: the shutdown sequence step by step, a kill at any phase (also mid-shutdown), "
                "leave notification to at most MaxNotify peers, relay of the left state, failure detection and the "
                "listeners' reconnect loop, for every victim; safety invariants and <>[]Recovered / StopTerminates "
                "under fairness; (2) three real piko server PROCESSES (binary built from the working tree) behind a "
                "TCP load balancer on the upstream ports, two real upstream listeners first connected to the "
                "victim; the victim receives SIGTERM or SIGKILL at the given phase; observed on the survivors' "
                "admin/proxy ports and the listeners; judged by TLC (TraceC.tla); (3) the retry policy of the reconnect "
                "loop (Backoff.tla: never gives up when retries = 0, waits within [min, 1.1 max], doubles up to the "
                "cap) model-checked and the real pkg/backoff judged call by call (TraceB.tla)")
    chk.assumptions = ["bounded-time forms: terminates within grace period + 0.5 s; left seen within 0.3 s of exit; "
                       "listeners reconnected within 8 s; served again within 15 s",
                       "with two survivors both are notified of a graceful leave"]
    model(chk, "C18-model", {"Node": {"a", "b", "c"}, "Lsn": {"l1", "l2"}, "MaxNotify": 4})
    model(chk, "C18-model-notify1", {"Node": {"a", "b", "c"}, "Lsn": {"l1"}, "MaxNotify": 1})
    if not quick:
        model(chk, "C18-model-4", {"Node": {"a", "b", "c", "d"}, "Lsn": {"l1", "l2"}, "MaxNotify": 2}, timeout=3000)
    model_d6(chk, {"Node": {"a", "b"}, "Lsn": {"l1", "l2"}, "MaxNotify": 4})
    retry_policy(chk)
    # the stop order on an in-process node with many upstream connections, observed from a peer
    v, st0 = engine.run(chk, "peng", {"mode": "stoporder", "n": 300, "sample": 3 if quick else 25}, "stop-order",
                        "TraceC", TRACE_CONSTS, ["NoStepViolation"], "peng-loss", what="the stopping node as seen by its peer",
                        strip=(), timeout=1800)
    if st0.get("by_op", {}).get("StopOrder", 0) == 0:
        raise vp.Machinery("vacuous run: no StopOrder")
    relay_scenarios(chk)
    pbin = build_piko()
    logdir = os.path.join(vp.OUT, "c18-logs")
    os.makedirs(logdir, exist_ok=True)
    cs = cases(chk.tier, chk.seed)
    if not quick:
        cs = cs * 2
    v, st = engine.run(chk, "peng", {"mode": "c18", "pikoBin": pbin, "logDir": logdir, "cases": cs}, "loss",
                       "TraceC", TRACE_CONSTS, ["NoStepViolation"], "peng-loss", what="the real cluster of processes",
                       strip=(), timeout=3400, max_lines=2)
    chk.notes["executed_calls_by_action"] = st.get("by_op")
    chk.notes["scenarios"] = cs
    chk.nontrivial = st.get("by_op", {}).get("Loss", 0) + st0.get("by_op", {}).get("StopOrder", 0)
    chk.rule += "; distinct_nontrivial = loss scenarios executed"
    if st.get("by_op", {}).get("Loss", 0) == 0:
        raise vp.Machinery("vacuous run")


def _replay(chk, obj):
    fs = obj.get("full_sched", {})
    fs["pikoBin"] = build_piko()
    v, st = engine.run(chk, "peng", fs, "replay", "TraceC", TRACE_CONSTS, ["NoStepViolation"], "peng-loss",
                       what="the real cluster of processes", strip=(), max_lines=2)
    print("replay: not reproduced (%d scenarios)" % st.get("by_op", {}).get("Loss", 0))


REPLAYERS["peng-loss"] = _replay
REPLAYERS["beng-trace"] = lambda chk, obj: engine.replay(chk, obj, "the real retry policy")
