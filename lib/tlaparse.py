"""Parsing what TLC prints: action labels, dot dumps, simulation files; path covers."""
import re
from collections import deque

_TOK = re.compile(r'\s*(?:(<<|>>|\|->|:>|@@|[\[\]{}(),])|"((?:[^"\\]|\\.)*)"|(-?\d+)|([A-Za-z_][A-Za-z0-9_]*))')


def _tokens(s):
    pos = 0
    out = []
    while pos < len(s):
        if s[pos:].strip() == "":
            break
        m = _TOK.match(s, pos)
        if not m:
            raise ValueError("cannot tokenize TLA value at %r" % s[pos:pos + 30])
        pos = m.end()
        if m.group(1) is not None:
            out.append(("p", m.group(1)))
        elif m.group(2) is not None:
            out.append(("s", m.group(2).replace('\\"', '"').replace("\\\\", "\\")))
        elif m.group(3) is not None:
            out.append(("n", int(m.group(3))))
        else:
            out.append(("i", m.group(4)))
    return out


class _P:
    def __init__(self, toks):
        self.t = toks
        self.i = 0

    def peek(self):
        return self.t[self.i] if self.i < len(self.t) else (None, None)

    def next(self):
        x = self.t[self.i]
        self.i += 1
        return x

    def expect(self, p):
        k, v = self.next()
        if (k, v) != ("p", p):
            raise ValueError("expected %s got %s" % (p, v))

    def value(self):
        k, v = self.next()
        if k == "s" or k == "n":
            return v
        if k == "i":
            if v == "TRUE":
                return True
            if v == "FALSE":
                return False
            return v
        if (k, v) == ("p", "<<"):
            return self.seq(">>")
        if (k, v) == ("p", "{"):
            return {"__set__": self.seq("}")}
        if (k, v) == ("p", "["):
            rec = {}
            while True:
                kk, name = self.next()
                self.expect("|->")
                rec[name] = self.value()
                k2, v2 = self.next()
                if (k2, v2) == ("p", "]"):
                    return rec
                if (k2, v2) != ("p", ","):
                    raise ValueError("bad record")
        if (k, v) == ("p", "("):
            # function literal (a :> b @@ c :> d)
            f = {}
            while True:
                key = self.value()
                self.expect(":>")
                f[key if not isinstance(key, dict) else str(key)] = self.value()
                k2, v2 = self.next()
                if (k2, v2) == ("p", ")"):
                    return f
                if (k2, v2) != ("p", "@@"):
                    raise ValueError("bad function")
        raise ValueError("unexpected token %r" % (v,))

    def seq(self, close):
        out = []
        if self.peek() == ("p", close):
            self.next()
            return out
        while True:
            out.append(self.value())
            k, v = self.next()
            if (k, v) == ("p", close):
                return out
            if (k, v) != ("p", ","):
                raise ValueError("bad sequence")


def parse_value(s):
    p = _P(_tokens(s))
    return p.value()


def parse_label(s):
    """'DoUpsert("a", "k1", "x")' -> ["DoUpsert", "a", "k1", "x"]"""
    s = s.strip()
    m = re.match(r'^([A-Za-z_][A-Za-z0-9_]*)\s*(?:\((.*)\))?\s*$', s, re.S)
    if not m:
        raise ValueError("bad label %r" % s)
    name, args = m.group(1), m.group(2)
    if args is None or args.strip() == "":
        return [name]
    p = _P(_tokens(args))
    out = [name]
    while True:
        out.append(p.value())
        if p.peek() == (None, None):
            break
        p.expect(",")
    return out


_EDGE = re.compile(r'^(-?\d+) -> (-?\d+) \[label="((?:[^"\\]|\\.)*)"')
_NODE = re.compile(r'^(-?\d+) \[label=')


def parse_dot(path):
    """Returns (init_ids, edges) with edges = list of (src, dst, label_list)."""
    inits = []
    edges = []
    with open(path) as f:
        for line in f:
            m = _EDGE.match(line)
            if m:
                lab = m.group(3).replace('\\"', '"').replace("\\\\", "\\")
                edges.append((m.group(1), m.group(2), lab))
                continue
            m = _NODE.match(line)
            if m and "style = filled" in line:
                inits.append(m.group(1))
    return inits, edges


def path_cover(inits, edges, max_len=80, max_paths=None):
    """Paths from an initial state that together take every edge at least once.

    Greedy: shortest route to the nearest state with an untaken edge, then keep
    taking untaken edges while there are any.
    Returns list of paths; each path is a list of edge indices."""
    out = {}
    for idx, (s, d, _) in enumerate(edges):
        out.setdefault(s, []).append(idx)
    untaken = [True] * len(edges)
    remaining = len(edges)
    untaken_count = {}
    for s, lst in out.items():
        untaken_count[s] = len(lst)
    paths = []
    root = inits[0]
    # BFS tree from root (parents by edge) for shortest routes
    parent = {root: None}
    dq = deque([root])
    while dq:
        u = dq.popleft()
        for idx in out.get(u, []):
            v = edges[idx][1]
            if v not in parent:
                parent[v] = idx
                dq.append(v)
    order = list(parent.keys())  # BFS order

    def route(u):
        r = []
        while parent[u] is not None:
            idx = parent[u]
            r.append(idx)
            u = edges[idx][0]
        r.reverse()
        return r

    ptr = 0
    while remaining > 0:
        while ptr < len(order) and untaken_count.get(order[ptr], 0) == 0:
            ptr += 1
        if ptr >= len(order):
            break
        u = order[ptr]
        path = route(u)
        cur = u
        while len(path) < max_len:
            nxt = None
            for idx in out.get(cur, []):
                if untaken[idx]:
                    nxt = idx
                    break
            if nxt is None:
                # bounded search for a nearby state that still has an untaken edge
                hop = _nearby(cur, out, edges, untaken_count, 5, max_len - len(path))
                if hop is None:
                    break
                path.extend(hop)
                cur = edges[hop[-1]][1]
                continue
            untaken[nxt] = False
            untaken_count[cur] -= 1
            remaining -= 1
            path.append(nxt)
            cur = edges[nxt][1]
        paths.append(path)
        if max_paths and len(paths) >= max_paths:
            break
    return paths, remaining


def _nearby(start, out, edges, untaken_count, depth, budget):
    """Shortest route (<= depth edges, < budget) from start to a state with an untaken out-edge."""
    if budget <= 1:
        return None
    seen = {start: None}
    dq = deque([(start, 0)])
    while dq:
        u, dist = dq.popleft()
        if dist >= depth or dist + 1 >= budget:
            continue
        for idx in out.get(u, []):
            v = edges[idx][1]
            if v in seen:
                continue
            seen[v] = (u, idx)
            if untaken_count.get(v, 0) > 0:
                r = []
                w = v
                while seen[w] is not None:
                    pu, pidx = seen[w]
                    r.append(pidx)
                    w = pu
                r.reverse()
                return r
            dq.append((v, dist + 1))
    return None


_SIMLAB = re.compile(r'^\\\* <(.*) line \d+, col \d+ to line \d+, col \d+ of module \w+>\s*$')


def parse_sim_file(path):
    """One TLC -simulate file=... behaviour -> list of label lists (Init skipped)."""
    labs = []
    first = True
    with open(path) as f:
        for line in f:
            m = _SIMLAB.match(line)
            if m:
                if first:
                    first = False  # the initial predicate
                    continue
                labs.append(parse_label(m.group(1)))
    return labs
