"""C16: upstreams are registered exactly while connected; expiry ends connections
(Lifecycle.tla + cmd/peng mode c16 on a real node with real client listeners)."""
import engine
import vp
from checks import prop, REPLAYERS

L_INV = ["SessionsAreHandlers", "RegSubsetSess", "AdvMatchesReg", "RegistryIsOpenConns",
         "AllGoneAdvertisesNothing", "NotClosedBeforeExpiry"]
L_PROPS = ["ClosedAtExpiry", "ShutdownReleasesAll"]


def model(chk, label, c, timeout=2400):
    with vp.Scratch("mc-" + label) as d:
        vp.copy_specs(d, ["Lifecycle"])
        res = vp.run_tlc(d, "Lifecycle", vp.cfg_text("Spec", c, L_INV, L_PROPS, None), timeout=timeout)
    chk.add_tlc(res, label)
    if res.error or res.violated or res.queue != 0:
        raise vp.Machinery("Lifecycle.tla model %s failed (%s):\n%s" % (label, res.violated, res.out[-3000:]))


@prop("C16")
def c16(chk):
    quick = chk.tier == "quick"
    chk.rule = ("(1) Lifecycle.tla: every interleaving of connect, go-away, proxied requests (ErrGone removal), "
                "client close, network drop, shedding, token expiry (discrete clock), server shutdown and the "
                "handler's deferred clean-up for 3 connections on 2 endpoints, incl. liveness ClosedAtExpiry and "
                "ShutdownReleasesAll under fairness; (2) seeded scenarios on a real node: real client listeners "
                "behind cuttable TCP relays, random sequences of the same events (incl. a request in flight while "
                "its connection is cut), ending with everybody closing or the server shutting down; after every "
                "event, at quiescence, the registry, open sessions, local routing entry and published gossip keys "
                "are read back and judged by TLC (TraceL.tla); (3) token expiry measured against the wall clock "
                "with and without disconnect-on-expiry")
    chk.assumptions = ["quiescence is awaited for at most 3 s", "expiry tolerance -150 ms / +700 ms",
                       "a listener that stopped accepting (go-away) does not reconnect after a drop"]
    if quick:
        model(chk, "C16-model", {"ConnE1": {"c1", "c2"}, "ConnE2": set(), "MaxClock": 1, "DisableExpiry": False})
    else:
        model(chk, "C16-model", {"ConnE1": {"c1", "c2"}, "ConnE2": {"c3"}, "MaxClock": 2, "DisableExpiry": False})
        model(chk, "C16-model-noexpiry", {"ConnE1": {"c1", "c2"}, "ConnE2": {"c3"}, "MaxClock": 1,
                                          "DisableExpiry": True})
    v, st = engine.run(chk, "peng", {"mode": "c16", "sample": 6 if quick else 150}, "life", "TraceL", {},
                       ["NoStepViolation"], "peng-life", what="the real node", strip=("mode", "sample"),
                       timeout=3000)
    chk.notes["executed_calls_by_action"] = st.get("by_op")
    chk.nontrivial = st.get("distinct_outcomes", 0)
    chk.rule += "; distinct_nontrivial = distinct observations"
    for need in ("Life", "Expiry"):
        if st.get("by_op", {}).get(need, 0) == 0:
            raise vp.Machinery("vacuous run: no " + need)


def _replay(chk, obj):
    # scenarios are seeded; a replay re-runs the scenarios of the seed recorded in the file
    chk.seed = obj.get("seed", chk.seed)
    v, st = engine.run(chk, "peng", obj.get("full_sched", {"mode": "c16", "sample": 6}), "replay", "TraceL", {},
                       ["NoStepViolation"], "peng-life", what="the real node")
    print("replay: not reproduced (%d observations)" % st.get("steps", 0))


REPLAYERS["peng-life"] = _replay
