"""C16: upstreams are registered exactly while connected; expiry ends connections
(Lifecycle.tla / LifecycleOps.tla + cmd/peng mode c16 on a real node with real client listeners)."""
import engine
import gossip as G
import vp
from checks import prop, REPLAYERS

L_INV = ["SessionsAreHandlers", "RegSubsetSess", "AdvMatchesReg", "RegistryIsOpenConns",
         "AllGoneAdvertisesNothing", "NotClosedBeforeExpiry"]
L_PROPS = ["ClosedAtExpiry", "ShutdownReleasesAll"]
COVER = {"ConnE1": {"c1", "c2"}, "ConnE2": {"c3"}, "ExpConn": {"c1", "c3"}, "MaxClock": 0, "DisableExpiry": False}
WALK = {"ConnE1": {"c1", "c2", "c4", "c6"}, "ConnE2": {"c3", "c5", "c7"}, "ExpConn": {"c1", "c3", "c4", "c7"},
        "MaxClock": 0, "DisableExpiry": False}


def model(chk, label, c, timeout=2400):
    with vp.Scratch("mc-" + label) as d:
        vp.copy_specs(d, ["Lifecycle", "LifecycleOps"])
        res = vp.run_tlc(d, "Lifecycle", vp.cfg_text("Spec", c, L_INV, L_PROPS, None), timeout=timeout)
    chk.add_tlc(res, label)
    if res.error or res.violated or res.queue != 0:
        raise vp.Machinery("Lifecycle.tla model %s failed (%s):\n%s" % (label, res.violated, res.out[-3000:]))


def sched_of(c, **kw):
    return dict({"mode": "c16", "connE1": sorted(c["ConnE1"]), "connE2": sorted(c["ConnE2"]),
                 "expConn": sorted(c["ExpConn"])}, **kw)


@prop("C16")
def c16(chk):
    quick = chk.tier == "quick"
    chk.rule = ("(1) Lifecycle.tla Spec: every interleaving of connect, go-away, proxied requests (ErrGone removal), "
                "client close, network drop, shedding, token expiry (discrete clock), redial, server shutdown and "
                "the handler's deferred clean-up, incl. liveness ClosedAtExpiry and ShutdownReleasesAll under "
                "fairness; (2) MacroSpec (the same transition functions composed per driver command): its complete "
                "state graph for 3 listeners on 2 endpoints is dumped and a path set that takes every transition "
                "is executed on a real node (real client listeners behind cuttable TCP relays), plus seeded random "
                "command sequences over 7 listeners; after every command, at quiescence, the registry, open "
                "sessions, local routing entry and published gossip keys are read back and TLC (TraceL.tla) "
                "advances the set of specification states that explain the observations with the functions of "
                "LifecycleOps.tla and judges the observation against the connections the driver holds open; "
                "(3) token expiry measured against the wall clock with and without disconnect-on-expiry; "
                "(4) a network path that goes silent (relay turned into a black hole): the keep-alive must end "
                "the connection and release registration and session within 45 s, the sibling stays; "
                "(5) a path congested to a standstill (relay stops reading, 80 uploads fill the buffers): a request "
                "that cannot open a stream for 10 s is refused, and when the path flows again the listener is "
                "still registered, advertised and served")
    chk.assumptions = ["quiescence is awaited for at most 8 s", "expiry tolerance -150 ms / +1500 ms",
                       "silent drop noticed within keep-alive interval 30 s + write timeout 10 s + 5 s",
                       "shedding is only triggered while every listener would reconnect"]
    if quick:
        model(chk, "C16-model", {"ConnE1": {"c1", "c2"}, "ConnE2": set(), "ExpConn": set(), "MaxClock": 1,
                                 "DisableExpiry": False})
    else:
        model(chk, "C16-model", {"ConnE1": {"c1", "c2"}, "ConnE2": {"c3"}, "ExpConn": set(), "MaxClock": 2,
                                 "DisableExpiry": False})
        model(chk, "C16-model-noexpiry", {"ConnE1": {"c1", "c2"}, "ConnE2": {"c3"}, "ExpConn": set(), "MaxClock": 1,
                                          "DisableExpiry": True})
    beh, info = G.gen_cover(chk, "C16-cover", COVER, module="Lifecycle", spec="MacroSpec", view="MacroView",
                            max_len=40)
    chk.notes["cover"] = info
    chk.exhaustive = info["uncovered_edges"] == 0
    ops = {}
    v, st = engine.run(chk, "peng", sched_of(COVER, behaviours=beh, par=12), "cover", "TraceL", COVER,
                       ["NoStepViolation"], "peng-life", what="the real node", strip=("behaviours",), timeout=3000)
    nontrivial = st.get("distinct_outcomes", 0)
    v2, st2 = engine.run(chk, "peng", sched_of(WALK, walks=24 if quick else 1500, par=12, expiry=True), "walks", "TraceL", WALK,
                         ["NoStepViolation"], "peng-life", what="the real node", timeout=3000)
    chk.nontrivial = nontrivial + st2.get("distinct_outcomes", 0)
    for s in (st, st2):
        for k, n in s.get("by_op", {}).items():
            ops[k] = ops.get(k, 0) + n
    chk.notes["executed_calls_by_action"] = ops
    chk.rule += "; distinct_nontrivial = distinct observations"
    for need in ("Life", "Expiry", "Stall", "Backlog"):
        if ops.get(need, 0) == 0:
            raise vp.Machinery("vacuous run: no " + need)


def _replay(chk, obj):
    consts = {k: set(v) if isinstance(v, list) else v for k, v in obj["consts"].items()}
    sched = dict(obj["sched"])
    sched["behaviours"] = [[c for c in b if c and c[0] in ("listen", "goaway", "close", "request", "drop",
                                                           "drop-inflight", "shed", "stop")]
                           for b in sched.get("behaviours", [])]
    names = {"listen": "DoListen", "goaway": "DoGoAway", "close": "DoClose", "drop": "DoDrop",
             "drop-inflight": "DoDropInflight", "shed": "DoShed", "stop": "DoStop"}
    out = []
    for b in sched["behaviours"]:
        cmds = []
        for ev, c, e in b:
            if ev == "request":
                cmds.append(["DoRequestNone", e])
            elif ev in ("shed", "stop"):
                cmds.append([names[ev]])
            else:
                cmds.append([names[ev], c])
        out.append(cmds)
    sched["behaviours"] = out
    sched["walks"] = 0
    v, st = engine.run(chk, "peng", sched, "replay", "TraceL", consts, ["NoStepViolation"], "peng-life",
                       what="the real node")
    print("replay: not reproduced (%d observations)" % st.get("steps", 0))


REPLAYERS["peng-life"] = _replay
