// weng drives tunnelled byte streams end to end: over a bare pair of
// pkg/websocket connections, and through real piko nodes (dialer -> node ->
// upstream listener; dialer -> node a -> node b -> listener). Every write and
// read is logged for validation against spec/TraceWs.tla. Payload bytes are a
// function of the stream offset, so every chunk read proves its own position.
package main

import (
	"bufio"
	"context"
	"encoding/json"
	"errors"
	"flag"
	"fmt"
	"math/rand"
	"net"
	"net/http"
	"net/http/httptest"
	"net/url"
	"os"
	"strings"
	"sync"
	"time"

	"github.com/gorilla/websocket"

	agentconfig "github.com/andydunstall/piko/agent/config"
	"github.com/andydunstall/piko/agent/tcpproxy"
	"github.com/andydunstall/piko/client"
	"github.com/andydunstall/piko/forward"
	pikolog "github.com/andydunstall/piko/pkg/log"
	pikows "github.com/andydunstall/piko/pkg/websocket"

	"verifharness/internal/psim"
)

type Step struct {
	Op   string `json:"op"`   // Reset | W | R | Close
	Path string `json:"path"` // pair | tunnel1 | tunnel2
	Dir  string `json:"dir"`  // ab | ba  (who writes -> who reads)
	Size int    `json:"size"` // W: bytes written; R: buffer size
	N    int    `json:"n"`    // bytes the call reported
	Off  int    `json:"off"`  // R: stream offset of the first byte returned, as the content says; -1 if wrong
	Err  string `json:"err"`  // "" | timeout | eof | closed | reset | other
	End  string `json:"end"`  // Close: which end closed (a | b)
	Cmd  string `json:"cmd"`
}

type sched struct {
	Paths      []string          `json:"paths"`
	Behaviours [][][]interface{} `json:"behaviours"`
	Walks      int               `json:"walks"`
	Depth      int               `json:"depth"`
}

func pat(off int) byte { return byte((off*131 + off/251*7 + 13) % 251) }

func fill(off, n int) []byte {
	b := make([]byte, n)
	for i := range b {
		b[i] = pat(off + i)
	}
	return b
}

func classify(err error) string {
	if err == nil {
		return ""
	}
	var ne net.Error
	if errors.As(err, &ne) && ne.Timeout() {
		return "timeout"
	}
	s := err.Error()
	switch {
	case strings.Contains(s, "EOF"):
		return "eof"
	case errors.Is(err, net.ErrClosed) || strings.Contains(s, "closed"):
		return "closed"
	case strings.Contains(s, "reset"):
		return "reset"
	}
	return "other:" + s
}

type pair struct {
	a, b    net.Conn
	cleanup func()
}

func newPair(path string) (*pair, error) {
	switch path {
	case "pair":
		ch := make(chan *websocket.Conn, 1)
		up := websocket.Upgrader{}
		srv := httptest.NewServer(http.HandlerFunc(func(w http.ResponseWriter, r *http.Request) {
			c, err := up.Upgrade(w, r, nil)
			if err == nil {
				ch <- c
			}
		}))
		a, err := pikows.Dial(context.Background(), "ws"+strings.TrimPrefix(srv.URL, "http"))
		if err != nil {
			srv.Close()
			return nil, err
		}
		b := pikows.New(<-ch)
		return &pair{a: a, b: b, cleanup: srv.Close}, nil
	case "tunnel1", "tunnel2":
		n1, err := psim.StartNode(psim.NodeOpts{ID: "a"})
		if err != nil {
			return nil, err
		}
		nodes := []*psim.Node{n1}
		entry, host := n1, n1
		if path == "tunnel2" {
			n2, err := psim.StartNode(psim.NodeOpts{ID: "b", Join: []string{n1.GossipAddr()}})
			if err != nil {
				n1.Stop()
				return nil, err
			}
			nodes = append(nodes, n2)
			host = n2
		}
		stop := func() {
			for _, n := range nodes {
				n.Stop()
			}
		}
		up := &client.Upstream{URL: &url.URL{Scheme: "http", Host: host.UpstreamAddr()}}
		ln, err := up.Listen(context.Background(), "tcp-e")
		if err != nil {
			stop()
			return nil, err
		}
		acc := make(chan net.Conn, 1)
		go func() {
			c, err := ln.Accept()
			if err == nil {
				acc <- c
			}
		}()
		// (Listen returns before the server has registered the upstream)
		if !psim.WaitFor(10*time.Second, func() bool {
			m, err := host.UpstreamEndpoints("")
			return err == nil && m["tcp-e"] > 0 && psim.Settled(nodes, "")
		}) {
			stop()
			return nil, fmt.Errorf("weng: did not settle")
		}
		a, err := psim.DialTCP(context.Background(), entry.ProxyAddr(), "tcp-e", "")
		if err != nil {
			stop()
			return nil, err
		}
		var b net.Conn
		select {
		case b = <-acc:
		case <-time.After(5 * time.Second):
			stop()
			return nil, fmt.Errorf("weng: listener did not accept")
		}
		return &pair{a: a, b: b, cleanup: func() { _ = ln.Shutdown(); stop() }}, nil
	case "chain":
		// TCP client -> piko forward -> node a -> node b -> agent TCP proxy -> local TCP service
		n1, err := psim.StartNode(psim.NodeOpts{ID: "a"})
		if err != nil {
			return nil, err
		}
		n2, err := psim.StartNode(psim.NodeOpts{ID: "b", Join: []string{n1.GossipAddr()}})
		if err != nil {
			n1.Stop()
			return nil, err
		}
		nodes := []*psim.Node{n1, n2}
		svc, err := net.Listen("tcp", "127.0.0.1:0")
		if err != nil {
			return nil, err
		}
		fln, err := net.Listen("tcp", "127.0.0.1:0")
		if err != nil {
			return nil, err
		}
		up := &client.Upstream{URL: &url.URL{Scheme: "http", Host: n2.UpstreamAddr()}}
		ln, err := up.Listen(context.Background(), "tcp-e")
		if err != nil {
			return nil, err
		}
		agent := tcpproxy.NewServer(agentconfig.ListenerConfig{EndpointID: "tcp-e", Addr: svc.Addr().String(),
			Protocol: agentconfig.ListenerProtocolTCP, Timeout: 5 * time.Second}, pikolog.NewNopLogger())
		go func() { _ = agent.Serve(ln) }()
		fwd := forward.NewForwarder("tcp-e", &client.Dialer{URL: &url.URL{Scheme: "http", Host: n1.ProxyAddr()}}, pikolog.NewNopLogger())
		go func() { _ = fwd.Forward(fln) }()
		stop := func() {
			_ = fwd.Close()
			_ = agent.Close()
			_ = ln.Shutdown()
			svc.Close()
			for _, n := range nodes {
				n.Stop()
			}
		}
		// (Listen returns before the server has registered the upstream)
		if !psim.WaitFor(10*time.Second, func() bool {
			m, err := n2.UpstreamEndpoints("")
			return err == nil && m["tcp-e"] > 0 && psim.Settled(nodes, "")
		}) {
			stop()
			return nil, fmt.Errorf("weng: did not settle")
		}
		acc := make(chan net.Conn, 1)
		go func() {
			c, err := svc.Accept()
			if err == nil {
				acc <- c
			}
		}()
		a, err := net.DialTimeout("tcp", fln.Addr().String(), 3*time.Second)
		if err != nil {
			stop()
			return nil, err
		}
		var b net.Conn
		select {
		case b = <-acc:
		case <-time.After(5 * time.Second):
			stop()
			return nil, fmt.Errorf("weng: the local service was not connected to")
		}
		return &pair{a: a, b: b, cleanup: stop}, nil
	}
	return nil, fmt.Errorf("unknown path %s", path)
}

type run struct {
	p        *pair
	path     string
	wrote    map[string]int
	read     map[string]int
	closedBy string
	emit     func(*Step)
}

func (r *run) ends(dir string) (w, rd net.Conn) {
	if dir == "ab" {
		return r.p.a, r.p.b
	}
	return r.p.b, r.p.a
}

func (r *run) write(dir string, size int) {
	if r.closedBy != "" {
		return
	}
	w, _ := r.ends(dir)
	_ = w.SetWriteDeadline(time.Now().Add(5 * time.Second))
	n, err := w.Write(fill(r.wrote[dir], size))
	s := &Step{Op: "W", Path: r.path, Dir: dir, Size: size, N: n, Err: classify(err)}
	if n > 0 {
		r.wrote[dir] += n
	}
	r.emit(s)
}

func (r *run) readOnce(dir string, buf int) {
	pending := r.wrote[dir] - r.read[dir]
	if pending == 0 && r.closedBy == "" {
		return // would block: nothing was written
	}
	_, rd := r.ends(dir)
	b := make([]byte, buf)
	_ = rd.SetReadDeadline(time.Now().Add(3 * time.Second))
	n, err := rd.Read(b)
	s := &Step{Op: "R", Path: r.path, Dir: dir, Size: buf, N: n, Err: classify(err), Off: r.read[dir]}
	for i := 0; i < n; i++ {
		if b[i] != pat(r.read[dir]+i) {
			s.Off = -1
			break
		}
	}
	if n > 0 {
		r.read[dir] += n
	}
	r.emit(s)
}

func (r *run) close(end string) {
	if r.closedBy != "" {
		return
	}
	c := r.p.a
	if end == "b" {
		c = r.p.b
	}
	if r.path == "chain" {
		// plain TCP ends: closing a socket with unread data resets the connection instead of ending the
		// stream, so the closing end first reads what was written towards it
		in := "ba"
		if end == "b" {
			in = "ab"
		}
		for i := 0; i < 5000 && r.read[in] < r.wrote[in]; i++ {
			before := r.read[in]
			r.readOnce(in, 8192)
			if r.read[in] == before {
				break
			}
		}
	}
	_ = c.Close()
	r.closedBy = end
	r.emit(&Step{Op: "Close", Path: r.path, End: end})
	// the other end drains what was written towards it and then sees the end of the stream
	dir := "ab"
	if end == "b" {
		dir = "ba"
	}
	for i := 0; i < 2000; i++ {
		before := r.read[dir]
		r.readOnce(dir, 4096)
		if r.read[dir] == before {
			break
		}
	}
}

// bulk: both ends write total bytes at the same time (in writes of chunk bytes) while both ends read; one
// Bulk line per direction: size = bytes written, n = bytes read, off = offset of the first byte that is not
// what was written there (-1: none). Must be the first traffic of the run (offsets start at the current ones).
func (r *run) bulk(total, chunk int) {
	if r.closedBy != "" {
		return
	}
	type res struct {
		wrote, read, bad int
		werr, rerr       string
	}
	out := map[string]*res{"ab": {bad: -1}, "ba": {bad: -1}}
	var wg sync.WaitGroup
	for _, dir := range []string{"ab", "ba"} {
		dir := dir
		w, rd := r.ends(dir)
		base := r.wrote[dir]
		wg.Add(2)
		go func() {
			defer wg.Done()
			for out[dir].wrote < total {
				n := chunk
				if total-out[dir].wrote < n {
					n = total - out[dir].wrote
				}
				_ = w.SetWriteDeadline(time.Now().Add(10 * time.Second))
				k, err := w.Write(fill(base+out[dir].wrote, n))
				out[dir].wrote += k
				if err != nil {
					out[dir].werr = classify(err)
					return
				}
			}
		}()
		go func() {
			defer wg.Done()
			buf := make([]byte, 64*1024)
			got := 0
			for got < total {
				_ = rd.SetReadDeadline(time.Now().Add(10 * time.Second))
				k, err := rd.Read(buf)
				for i := 0; i < k && out[dir].bad < 0; i++ {
					if buf[i] != pat(base+got+i) {
						out[dir].bad = base + got + i
					}
				}
				got += k
				if err != nil {
					out[dir].rerr = classify(err)
					break
				}
			}
			out[dir].read = got
		}()
	}
	wg.Wait()
	for _, dir := range []string{"ab", "ba"} {
		o := out[dir]
		r.wrote[dir] += o.wrote
		r.read[dir] += o.read
		e := o.werr
		if e == "" {
			e = o.rerr
		}
		r.emit(&Step{Op: "Bulk", Path: r.path, Dir: dir, Size: o.wrote, N: o.read, Off: o.bad, Err: e})
	}
}

// burst: one end writes total bytes and closes the moment its last Write has returned, while the other end reads
// slowly: everything that was accepted must still arrive, followed by a clean end of stream. One Burst line:
// size = bytes the writes accepted, n = bytes read, off = offset of the first wrong byte (-1: none), err = how
// the reading ended ("eof" = clean end of stream).
func (r *run) burst(end string, total int) {
	if r.closedBy != "" {
		return
	}
	dir := "ab"
	if end == "b" {
		dir = "ba"
	}
	w, rd := r.ends(dir)
	base := r.wrote[dir]
	wrote, read, bad := 0, 0, -1
	werr, rerr := "", ""
	var wg sync.WaitGroup
	wg.Add(2)
	go func() {
		defer wg.Done()
		for wrote < total {
			n := 64 * 1024
			if total-wrote < n {
				n = total - wrote
			}
			_ = w.SetWriteDeadline(time.Now().Add(20 * time.Second))
			k, err := w.Write(fill(base+wrote, n))
			wrote += k
			if err != nil {
				werr = classify(err)
				break
			}
		}
		_ = w.Close()
	}()
	go func() {
		defer wg.Done()
		buf := make([]byte, 32*1024)
		for {
			_ = rd.SetReadDeadline(time.Now().Add(20 * time.Second))
			k, err := rd.Read(buf)
			for i := 0; i < k && bad < 0; i++ {
				if buf[i] != pat(base+read+i) {
					bad = base + read + i
				}
			}
			read += k
			if err != nil {
				rerr = classify(err)
				return
			}
			time.Sleep(500 * time.Microsecond) // a slow reader: the writer is done long before everything was read
		}
	}()
	wg.Wait()
	r.wrote[dir] += wrote
	r.read[dir] += read
	r.closedBy = end
	e := rerr
	if werr != "" {
		e = "write:" + werr
	}
	r.emit(&Step{Op: "Burst", Path: r.path, Dir: dir, End: end, Size: wrote, N: read, Off: bad, Err: e})
}

func num(v interface{}) int    { f, _ := v.(float64); return int(f) }
func str(v interface{}) string { s, _ := v.(string); return s }

func main() {
	schedPath := flag.String("schedules", "", "")
	outPath := flag.String("out", "", "")
	statsPath := flag.String("stats", "", "")
	seed := flag.Int64("seed", 1, "")
	flag.Parse()
	raw, err := os.ReadFile(*schedPath)
	if err != nil {
		fmt.Fprintln(os.Stderr, "weng:", err)
		os.Exit(2)
	}
	var sf sched
	if err := json.Unmarshal(raw, &sf); err != nil {
		fmt.Fprintln(os.Stderr, "weng:", err)
		os.Exit(2)
	}
	out, err := os.Create(*outPath)
	if err != nil {
		fmt.Fprintln(os.Stderr, "weng:", err)
		os.Exit(2)
	}
	defer out.Close()
	bw := bufio.NewWriterSize(out, 1<<20)
	defer bw.Flush()
	enc := json.NewEncoder(bw)
	steps, behaviours := 0, 0
	byOp := map[string]int{}
	emit := func(s *Step) {
		if s.Cmd == "" {
			var c []interface{}
			switch s.Op {
			case "W", "R":
				c = []interface{}{s.Op, s.Dir, s.Size}
			case "Close":
				c = []interface{}{"Close", s.End}
			case "Bulk":
				c = []interface{}{"BulkResult", s.Dir, s.Size, s.N, s.Off}
			case "Burst":
				c = []interface{}{"Burst", s.End, s.Size}
			default:
				c = []interface{}{s.Op, s.Path}
			}
			b, _ := json.Marshal(c)
			s.Cmd = string(b)
		}
		steps++
		byOp[s.Op]++
		_ = enc.Encode(s)
	}
	rng := rand.New(rand.NewSource(*seed))
	sizes := []int{0, 1, 2, 3, 100, 4096, 70000}
	bufs := []int{1, 2, 3, 64, 4096, 100000}
	exec := func(r *run, a []interface{}) {
		switch str(a[0]) {
		case "W", "Write":
			size := num(a[len(a)-1])
			dir := "ab"
			if len(a) > 2 {
				dir = str(a[1])
			}
			r.write(dir, size)
		case "R", "Read":
			dir := "ab"
			buf := num(a[1])
			if len(a) > 2 && str(a[1]) != "" {
				dir, buf = str(a[1]), num(a[2])
			}
			r.readOnce(dir, buf)
		case "Close":
			end := "a"
			if len(a) > 1 {
				end = str(a[1])
			}
			r.close(end)
		case "Bulk":
			r.bulk(num(a[1]), num(a[2]))
		case "Burst":
			r.burst(str(a[1]), num(a[2]))
		}
	}
	for _, path := range sf.Paths {
		one := func(fn func(r *run)) {
			p, err := newPair(path)
			if err != nil {
				bw.Flush()
				fmt.Fprintln(os.Stderr, "weng: scenario could not be set up:", err)
				os.Exit(4)
			}
			emit(&Step{Op: "Reset", Path: path})
			behaviours++
			r := &run{p: p, path: path, wrote: map[string]int{}, read: map[string]int{}, emit: emit}
			fn(r)
			// drain both directions so that "everything written arrives" is observed
			for _, dir := range []string{"ab", "ba"} {
				for i := 0; i < 5000 && r.closedBy == "" && r.read[dir] < r.wrote[dir]; i++ {
					before := r.read[dir]
					r.readOnce(dir, 8192)
					if r.read[dir] == before {
						break // nothing arrived (the line that says so is in the trace): do not hammer a failed connection
					}
				}
			}
			if r.closedBy == "" {
				r.close([]string{"a", "b"}[rng.Intn(2)])
			}
			p.a.Close()
			p.b.Close()
			p.cleanup()
		}
		for _, beh := range sf.Behaviours {
			beh := beh
			one(func(r *run) {
				for _, a := range beh {
					exec(r, a)
				}
			})
		}
		for i := 0; i < sf.Walks; i++ {
			one(func(r *run) {
				for d := 0; d < sf.Depth; d++ {
					dir := []string{"ab", "ba"}[rng.Intn(2)]
					switch x := rng.Intn(20); {
					case x < 8:
						r.write(dir, sizes[rng.Intn(len(sizes))])
					case x < 19:
						r.readOnce(dir, bufs[rng.Intn(len(bufs))])
					default:
						if d > sf.Depth/2 {
							r.close([]string{"a", "b"}[rng.Intn(2)])
						}
					}
				}
			})
		}
	}
	if *statsPath != "" {
		b, _ := json.Marshal(map[string]interface{}{"steps": steps, "behaviours": behaviours, "by_op": byOp})
		_ = os.WriteFile(*statsPath, b, 0o644)
	}
}
