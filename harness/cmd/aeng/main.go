// aeng sends real requests with real signed tokens to the protected ports of
// real in-process piko nodes, for the cases of the decision table Auth.tla,
// and writes one ndjson line per request for validation against
// spec/TraceAuth.tla.
package main

import (
	"bufio"
	"context"
	"crypto/ecdsa"
	"crypto/elliptic"
	"crypto/rand"
	"crypto/rsa"
	"crypto/x509"
	"encoding/base64"
	"encoding/json"
	"encoding/pem"
	"flag"
	"fmt"
	"io"
	mrand "math/rand"
	"net/http"
	"net/url"
	"os"
	"path/filepath"
	"sort"
	"strings"
	"time"

	"github.com/gin-gonic/gin"
	"github.com/golang-jwt/jwt/v5"

	"github.com/andydunstall/piko/client"
	"github.com/andydunstall/piko/pkg/auth"
	"github.com/andydunstall/piko/server/config"

	"verifharness/internal/psim"
)

type Conf struct {
	Keys   []string `json:"keys"`
	Aud    string   `json:"aud"`
	Iss    string   `json:"iss"`
	NoDisc bool     `json:"noDisc"` // disable_disconnect_on_expiry on every port
}

type Tok struct {
	Alg    string   `json:"alg"`
	Signer string   `json:"signer"`
	Tamper string   `json:"tamper"`
	Exp    string   `json:"exp"`
	Nbf    string   `json:"nbf"`
	Aud    string   `json:"aud"`
	Iss    string   `json:"iss"`
	Kid    string   `json:"kid"`
	Eps    []string `json:"eps"`
}

type Hdr struct {
	X      string `json:"x"`
	Authz  string `json:"authz"`
	Scheme string `json:"scheme"`
}

type Ten struct {
	Table     []string `json:"table"`
	Hdr       string   `json:"hdr"`
	SignedFor string   `json:"signedFor"`
	NoDefault bool     `json:"noDefault"` // the upstream port has a tenant table but no default key
}

type Tgt struct {
	Host   string `json:"host"`
	Header string `json:"header"`
	Path   string `json:"path"` // endpoint named by the URL path (TCP route, upstream route)
	Fwd    bool   `json:"fwd"`  // the client itself sends x-piko-forward: true
}

type Step struct {
	Op     string `json:"op"`   // Reset | Auth | Endpoint | Listen | Tenant
	Port   string `json:"port"` // proxy | upstream | admin
	Route  string `json:"route"`
	Conf   Conf   `json:"conf"`
	Tok    Tok    `json:"tok"`
	Hdr    Hdr    `json:"hdr"`
	Ten    Ten    `json:"ten"`
	Tgt    Tgt    `json:"tgt"`
	Status int    `json:"status"`
	Served string `json:"served"` // endpoint stamped by the upstream that served the request, "" if none
	Hits   int    `json:"hits"`   // requests that reached any stamping upstream during this call
	Reg    string `json:"reg"`    // Listen/Tenant: endpoint that got registered, "" if none
	When   string `json:"when"`   // "before" / "after" the expiry of a token whose exp is "soon"
	Seen   bool   `json:"seen"`   // the same token string was presented to this port before (and accepted)
	Cmd    string `json:"cmd"`
}

type sched struct {
	KeySets    [][]string        `json:"keySets"`
	Auds       []string          `json:"auds"`
	Isss       []string          `json:"isss"`
	Random     int               `json:"random"` // random token/header mixes per configuration (C09)
	C10        bool              `json:"c10"`
	Deep       bool              `json:"deep"` // C10: every key family, more claim sets and names
	Behaviours [][][]interface{} `json:"behaviours"`
}

// ---- keys ------------------------------------------------------------------

var (
	hmacConf            = []byte("the-configured-hmac-secret")
	hmacOther           = []byte("some-other-secret")
	rsaConf, rsaOther   *rsa.PrivateKey
	ecConf, ecOther     *ecdsa.PrivateKey
	rsaPubPEM, ecPubPEM string
	jwksPath            string
)

func pemOf(pub interface{}) string {
	b, err := x509.MarshalPKIXPublicKey(pub)
	if err != nil {
		panic(err)
	}
	return string(pem.EncodeToMemory(&pem.Block{Type: "PUBLIC KEY", Bytes: b}))
}

func initKeys(dir string) {
	var err error
	if rsaConf, err = rsa.GenerateKey(rand.Reader, 2048); err != nil {
		panic(err)
	}
	if rsaOther, err = rsa.GenerateKey(rand.Reader, 2048); err != nil {
		panic(err)
	}
	if ecConf, err = ecdsa.GenerateKey(elliptic.P256(), rand.Reader); err != nil {
		panic(err)
	}
	if ecOther, err = ecdsa.GenerateKey(elliptic.P256(), rand.Reader); err != nil {
		panic(err)
	}
	rsaPubPEM, ecPubPEM = pemOf(&rsaConf.PublicKey), pemOf(&ecConf.PublicKey)
	n := base64.RawURLEncoding.EncodeToString(rsaConf.PublicKey.N.Bytes())
	jwks := fmt.Sprintf(`{"keys":[{"kty":"RSA","kid":"k1","use":"sig","n":"%s","e":"AQAB"}]}`, n)
	jwksPath = filepath.Join(dir, "jwks.json")
	if err := os.WriteFile(jwksPath, []byte(jwks), 0o600); err != nil {
		panic(err)
	}
}

func authConfig(c Conf) auth.Config {
	a := auth.Config{Audience: c.Aud, Issuer: c.Iss, DisableDisconnectOnExpiry: c.NoDisc}
	for _, k := range c.Keys {
		switch k {
		case "HS":
			a.HMACSecretKey = string(hmacConf)
		case "RS":
			a.RSAPublicKey = rsaPubPEM
		case "ES":
			a.ECDSAPublicKey = ecPubPEM
		case "JWKS":
			a.JWKS.Endpoint = "file://" + jwksPath
		}
	}
	return a
}

// ---- tokens ----------------------------------------------------------------

// a token whose exp is "soon" expires this long after it was made (exp has whole seconds)
const soonAfter = 3 * time.Second

type claims struct {
	jwt.RegisteredClaims
	Piko struct {
		Endpoints []string `json:"endpoints,omitempty"`
	} `json:"piko"`
}

func flip(seg string) string {
	b := []byte(seg)
	if len(b) == 0 {
		return "A"
	}
	i := len(b) / 2
	if b[i] == 'A' {
		b[i] = 'B'
	} else {
		b[i] = 'A'
	}
	return string(b)
}

func makeToken(t Tok, hmacKey []byte) string {
	c := claims{}
	now := time.Now()
	switch t.Exp {
	case "past":
		c.ExpiresAt = jwt.NewNumericDate(now.Add(-time.Hour))
	case "future":
		c.ExpiresAt = jwt.NewNumericDate(now.Add(time.Hour))
	case "soon":
		c.ExpiresAt = jwt.NewNumericDate(now.Add(soonAfter))
	}
	switch t.Nbf {
	case "past":
		c.NotBefore = jwt.NewNumericDate(now.Add(-time.Hour))
	case "future":
		c.NotBefore = jwt.NewNumericDate(now.Add(time.Hour))
	}
	if t.Aud != "absent" && t.Aud != "" {
		c.Audience = jwt.ClaimStrings{t.Aud}
	}
	if t.Iss != "absent" && t.Iss != "" {
		c.Issuer = t.Iss
	}
	c.Piko.Endpoints = t.Eps
	var method jwt.SigningMethod
	var key interface{}
	switch t.Alg {
	case "HS":
		method = jwt.SigningMethodHS256
		key = hmacKey
		if t.Signer == "other" {
			key = hmacOther
		}
		if t.Signer == "confusion" {
			key = []byte(rsaPubPEM) // the public RSA key used as an HMAC secret
		}
		if t.Signer == "empty" {
			key = []byte{} // the HMAC secret of a configuration that has none
		}
	case "RS":
		method = jwt.SigningMethodRS256
		key = rsaConf
		if t.Signer == "other" || t.Signer == "confusion" || t.Signer == "empty" {
			key = rsaOther
		}
	case "ES":
		method = jwt.SigningMethodES256
		key = ecConf
		if t.Signer == "other" || t.Signer == "confusion" || t.Signer == "empty" {
			key = ecOther
		}
	default:
		method = jwt.SigningMethodNone
		key = jwt.UnsafeAllowNoneSignatureType
	}
	tk := jwt.NewWithClaims(method, c)
	switch t.Kid {
	case "known":
		tk.Header["kid"] = "k1"
	case "unknown":
		tk.Header["kid"] = "zz"
	}
	s, err := tk.SignedString(key)
	if err != nil {
		panic(err)
	}
	parts := strings.Split(s, ".")
	if t.Signer == "unsigned" {
		parts[2] = ""
	}
	switch t.Tamper {
	case "header":
		// re-encode the header with an extra field: still valid JSON, different bytes
		hb, _ := base64.RawURLEncoding.DecodeString(parts[0])
		hb = append(hb[:len(hb)-1], []byte(`,"x":1}`)...)
		parts[0] = base64.RawURLEncoding.EncodeToString(hb)
	case "payload":
		pb, _ := base64.RawURLEncoding.DecodeString(parts[1])
		pb = append(pb[:len(pb)-1], []byte(`,"admin":true}`)...)
		parts[1] = base64.RawURLEncoding.EncodeToString(pb)
	case "sig":
		parts[2] = flip(parts[2])
	}
	return strings.Join(parts, ".")
}

func headerValue(h Hdr, which string, token string) (string, bool) {
	v := h.X
	if which == "authz" {
		v = h.Authz
	}
	if v == "absent" {
		return "", false
	}
	t := token
	if v == "bad" {
		t = "garbage.garbage.garbage"
	}
	// the scheme variation applies to the header that takes effect
	effective := "x"
	if h.X == "absent" {
		effective = "authz"
	}
	scheme := "Bearer"
	if which == effective {
		scheme = h.Scheme
	}
	switch scheme {
	case "none":
		return t, true
	default:
		return scheme + " " + t, true
	}
}

// ---- a protected two-node cluster with stamping upstreams -----------------

type world struct {
	conf   Conf
	nodes  []*psim.Node
	ups    []*psim.Upstream
	admin  string // an unrestricted, valid token for set-up and observation
	routes map[string][]string
}

func goodTok(c Conf) Tok {
	t := Tok{Alg: "HS", Signer: "conf", Tamper: "none", Exp: "future", Nbf: "absent", Aud: "absent", Iss: "absent", Kid: "known"}
	keys := map[string]bool{}
	for _, k := range c.Keys {
		keys[k] = true
	}
	switch {
	case keys["JWKS"] || (!keys["HS"] && keys["RS"]):
		t.Alg = "RS"
	case !keys["HS"] && keys["ES"]:
		t.Alg = "ES"
	}
	if c.Aud != "" {
		t.Aud = c.Aud
	}
	if c.Iss != "" {
		t.Iss = c.Iss
	}
	return t
}

func (w *world) hits() int {
	n := 0
	for _, u := range w.ups {
		n += int(u.Requests.Load())
	}
	return n
}

func newWorld(c Conf, tenants []config.TenantConfig, endpoints []string) (*world, error) {
	return newWorldOpt(c, tenants, endpoints, false)
}

func newWorldOpt(c Conf, tenants []config.TenantConfig, endpoints []string, noDefaultUpstream bool) (*world, error) {
	w := &world{conf: c, routes: map[string][]string{}}
	ac := authConfig(c)
	o1 := psim.NodeOpts{ID: "n1", Auth: ac, Tenants: tenants}
	if noDefaultUpstream {
		o1.UpstreamAuth = &auth.Config{}
	}
	n1, err := psim.StartNode(o1)
	if err != nil {
		return nil, err
	}
	// the second node's admin port is open: a request that the first node forwards to it (?forward=n2)
	// before authenticating it would be answered
	n2, err := psim.StartNode(psim.NodeOpts{ID: "n2", Auth: ac, AdminAuth: &auth.Config{}, Tenants: tenants, Join: []string{n1.GossipAddr()}})
	if err != nil {
		return nil, err
	}
	w.nodes = []*psim.Node{n1, n2}
	w.admin = makeToken(goodTok(c), hmacConf)
	if len(tenants) == 0 {
		for i, e := range endpoints {
			u, err := psim.Listen(context.Background(), n1.UpstreamAddr(), e, fmt.Sprintf("u%d", i), w.admin, "")
			if err != nil {
				return nil, fmt.Errorf("listen %s: %w", e, err)
			}
			w.ups = append(w.ups, u)
		}
	}
	// the real route tables
	collect := func(port string, h http.Handler) {
		eng, ok := h.(*gin.Engine)
		if !ok {
			return
		}
		seen := map[string]bool{}
		for _, r := range eng.Routes() {
			p := r.Path
			p = strings.ReplaceAll(p, ":endpointID", "e")
			p = strings.ReplaceAll(p, ":id", "n2")
			if strings.HasSuffix(p, "/pprof/profile") || strings.HasSuffix(p, "/pprof/trace") {
				p += "?seconds=1"
			}
			key := r.Method + " " + p
			if !seen[key] {
				seen[key] = true
				w.routes[port] = append(w.routes[port], key)
			}
		}
		w.routes[port] = append(w.routes[port], "GET /", "POST /not/a/registered/route")
		sort.Strings(w.routes[port])
	}
	collect("proxy", n1.Server.VerifProxy().VerifHandler())
	collect("upstream", n1.Server.VerifUpstream().VerifHandler())
	collect("admin", n1.Server.VerifAdmin().VerifHandler())
	w.routes["admin"] = append(w.routes["admin"], "GET /status/cluster/nodes?forward=n2")
	return w, nil
}

func (w *world) close() {
	for _, u := range w.ups {
		u.Shutdown()
	}
	for _, n := range w.nodes {
		n.Stop()
	}
}

func (w *world) addr(port string) string {
	switch port {
	case "proxy":
		return w.nodes[0].ProxyAddr()
	case "upstream":
		return w.nodes[0].UpstreamAddr()
	}
	return w.nodes[0].AdminAddr()
}

func (w *world) send(port, route string, h Hdr, token string, tgt Tgt, tenant string) (int, string) {
	parts := strings.SplitN(route, " ", 2)
	req, err := http.NewRequest(parts[0], "http://"+w.addr(port)+parts[1], nil)
	if err != nil {
		return -1, ""
	}
	if port == "proxy" {
		host := tgt.Host
		if host != "" {
			req.Host = host + ".piko.example.com"
		} else {
			req.Host = "localhost"
		}
		if tgt.Header != "" {
			req.Header.Set("x-piko-endpoint", tgt.Header)
		}
		if tgt.Fwd {
			req.Header.Set("x-piko-forward", "true")
		}
	}
	if v, ok := headerValue(h, "x", token); ok {
		req.Header.Set("x-piko-authorization", v)
	}
	if v, ok := headerValue(h, "authz", token); ok {
		req.Header.Set("Authorization", v)
	}
	if tenant != "" {
		req.Header.Set("x-piko-tenant-id", tenant)
	}
	resp, err := psim.HTTP.Do(req)
	if err != nil {
		return -2, ""
	}
	defer resp.Body.Close()
	_, _ = io.Copy(io.Discard, resp.Body)
	return resp.StatusCode, resp.Header.Get("X-Stamp-Endpoint")
}

// ---- case generation -------------------------------------------------------

var (
	algs    = []string{"HS", "RS", "ES", "none"}
	signers = []string{"conf", "other", "confusion", "unsigned", "empty"}
	tampers = []string{"none", "header", "payload", "sig"}
	exps    = []string{"absent", "past", "future"}
	nbfs    = []string{"absent", "past", "future"}
	auds    = []string{"absent", "A", "B"}
	isss    = []string{"absent", "I", "J"}
	kids    = []string{"known", "unknown", "absent"}
	xs      = []string{"absent", "good", "bad"}
	schemes = []string{"Bearer", "bearer", "Basic", "none"}
)

func singleDefects(c Conf) []struct {
	T Tok
	H Hdr
} {
	base := goodTok(c)
	goodH := Hdr{X: "absent", Authz: "good", Scheme: "Bearer"}
	var out []struct {
		T Tok
		H Hdr
	}
	add := func(t Tok, h Hdr) {
		if !has(c.Keys, "JWKS") {
			t.Kid = "known"
		}
		out = append(out, struct {
			T Tok
			H Hdr
		}{t, h})
	}
	add(base, goodH)
	for _, a := range algs {
		t := base
		t.Alg = a
		add(t, goodH)
	}
	for _, s := range signers {
		for _, a := range algs {
			t := base
			t.Alg, t.Signer = a, s
			add(t, goodH)
		}
	}
	for _, x := range tampers {
		t := base
		t.Tamper = x
		add(t, goodH)
	}
	for _, x := range exps {
		t := base
		t.Exp = x
		add(t, goodH)
	}
	for _, x := range nbfs {
		t := base
		t.Nbf = x
		add(t, goodH)
	}
	for _, x := range auds {
		t := base
		t.Aud = x
		add(t, goodH)
	}
	for _, x := range isss {
		t := base
		t.Iss = x
		add(t, goodH)
	}
	if has(c.Keys, "JWKS") {
		for _, x := range kids {
			t := base
			t.Kid = x
			add(t, goodH)
		}
	}
	for _, x := range xs {
		for _, a := range xs {
			for _, s := range schemes {
				add(base, Hdr{X: x, Authz: a, Scheme: s})
			}
		}
	}
	return out
}

func has(xs []string, x string) bool {
	for _, y := range xs {
		if y == x {
			return true
		}
	}
	return false
}

func pick(r *mrand.Rand, xs []string) string { return xs[r.Intn(len(xs))] }

func main() {
	schedPath := flag.String("schedules", "", "")
	outPath := flag.String("out", "", "")
	statsPath := flag.String("stats", "", "")
	seed := flag.Int64("seed", 1, "")
	flag.Parse()
	raw, err := os.ReadFile(*schedPath)
	if err != nil {
		fmt.Fprintln(os.Stderr, "aeng:", err)
		os.Exit(2)
	}
	var sf sched
	if err := json.Unmarshal(raw, &sf); err != nil {
		fmt.Fprintln(os.Stderr, "aeng:", err)
		os.Exit(2)
	}
	dir, _ := os.MkdirTemp("", "aeng")
	defer os.RemoveAll(dir)
	initKeys(dir)
	out, err := os.Create(*outPath)
	if err != nil {
		fmt.Fprintln(os.Stderr, "aeng:", err)
		os.Exit(2)
	}
	defer out.Close()
	bw := bufio.NewWriterSize(out, 1<<20)
	defer bw.Flush()
	enc := json.NewEncoder(bw)
	steps := 0
	byOp := map[string]int{}
	distinct := map[string]bool{}
	emit := func(s *Step) {
		if s.Conf.Keys == nil {
			s.Conf.Keys = []string{}
		}
		if s.Tok.Eps == nil {
			s.Tok.Eps = []string{}
		}
		if s.Ten.Table == nil {
			s.Ten.Table = []string{}
		}
		b, _ := json.Marshal([]interface{}{s.Op, s.Port, s.Route, s.Conf, s.Tok, s.Hdr, s.Ten, s.Tgt})
		s.Cmd = string(b)
		steps++
		byOp[s.Op]++
		distinct[fmt.Sprintf("%s/%s/%d/%s", s.Op, s.Port, s.Status, s.Served)] = true
		_ = enc.Encode(s)
	}
	reset := func() { emit(&Step{Op: "Reset"}) }
	rng := mrand.New(mrand.NewSource(*seed))

	tokCache := map[string]string{}
	authCase := func(w *world, port, route string, t Tok, h Hdr) {
		tk, _ := json.Marshal(t)
		tokStr, ok := tokCache[string(tk)]
		if !ok {
			tokStr = makeToken(t, hmacConf)
			tokCache[string(tk)] = tokStr
		}
		before := w.hits()
		st, served := w.send(port, route, h, tokStr, Tgt{Host: "e"}, "")
		emit(&Step{Op: "Auth", Port: port, Route: route, Conf: w.conf, Tok: t, Hdr: h, Tgt: Tgt{Host: "e"},
			Status: st, Served: served, Hits: w.hits() - before})
	}

	// replay of explicit cases
	if len(sf.Behaviours) > 0 {
		reset()
		for _, beh := range sf.Behaviours {
			for _, a := range beh {
				if len(a) < 8 {
					continue
				}
				var s Step
				b, _ := json.Marshal(a)
				var arr []json.RawMessage
				_ = json.Unmarshal(b, &arr)
				_ = json.Unmarshal(arr[0], &s.Op)
				_ = json.Unmarshal(arr[1], &s.Port)
				_ = json.Unmarshal(arr[2], &s.Route)
				_ = json.Unmarshal(arr[3], &s.Conf)
				_ = json.Unmarshal(arr[4], &s.Tok)
				_ = json.Unmarshal(arr[5], &s.Hdr)
				_ = json.Unmarshal(arr[6], &s.Ten)
				_ = json.Unmarshal(arr[7], &s.Tgt)
				switch s.Op {
				case "Auth":
					w, err := newWorld(s.Conf, nil, []string{"e", "e1"})
					if err != nil {
						fmt.Fprintln(os.Stderr, "aeng:", err)
						os.Exit(2)
					}
					if s.Tok.Exp == "soon" {
						temporalCases(w, map[string][]string{s.Port: {s.Route}}, emit)
					} else {
						authCase(w, s.Port, s.Route, s.Tok, s.Hdr)
					}
					w.close()
				case "TenantAuth":
					route := s.Route
					tenantAuthCases(s.Conf, s.Ten.NoDefault, func(*world) []string { return []string{route} }, emit)
				case "Endpoint", "Listen":
					w, err := newWorld(s.Conf, nil, []string{"e", "e1"})
					if err != nil {
						fmt.Fprintln(os.Stderr, "aeng:", err)
						os.Exit(2)
					}
					if s.Op == "Endpoint" {
						endpointCase(w, s.Route, s.Tok, s.Tgt, emit)
					} else {
						listenCase(w, s.Route, s.Tok, emit)
					}
					w.close()
				case "Tenant":
					tenantCases(s.Conf, []Ten{s.Ten}, emit)
				}
			}
		}
		writeStats(*statsPath, steps, byOp, len(distinct))
		return
	}

	if !sf.C10 {
		for _, ks := range sf.KeySets {
			for _, aud := range sf.Auds {
				for _, iss := range sf.Isss {
					c := Conf{Keys: ks, Aud: aud, Iss: iss}
					w, err := newWorld(c, nil, []string{"e", "e1"})
					if err != nil && strings.Contains(err.Error(), "401") {
						// the set-up listener presented a valid token for this configuration and was refused: that is
						// an observation about the port (a valid token must be accepted), not a failure of the harness
						reset()
						emit(&Step{Op: "Auth", Port: "upstream", Route: "GET /piko/v1/upstream/e (set-up listener)", Conf: c,
							Tok: goodTok(c), Hdr: Hdr{X: "absent", Authz: "good", Scheme: "Bearer"}, Tgt: Tgt{Host: "e"},
							Status: 401})
						continue
					}
					if err != nil {
						fmt.Fprintln(os.Stderr, "aeng: start:", err)
						os.Exit(2)
					}
					reset()
					cases := singleDefects(c)
					for i := 0; i < sf.Random; i++ {
						t := Tok{Alg: pick(rng, algs), Signer: pick(rng, signers), Tamper: pick(rng, tampers), Exp: pick(rng, exps),
							Nbf: pick(rng, nbfs), Aud: pick(rng, auds), Iss: pick(rng, isss), Kid: "known"}
						if has(ks, "JWKS") {
							t.Kid = pick(rng, kids)
						}
						if rng.Intn(2) == 0 {
							// mostly valid, one or two defects
							g := goodTok(c)
							switch rng.Intn(6) {
							case 0:
								g.Exp = t.Exp
							case 1:
								g.Nbf = t.Nbf
							case 2:
								g.Aud, g.Iss = t.Aud, t.Iss
							case 3:
								g.Alg, g.Signer = t.Alg, t.Signer
							case 4:
								g.Tamper = t.Tamper
							}
							g.Kid = t.Kid
							t = g
						}
						cases = append(cases, struct {
							T Tok
							H Hdr
						}{t, Hdr{X: pick(rng, xs), Authz: pick(rng, xs), Scheme: pick(rng, schemes)}})
					}
					for _, port := range []string{"proxy", "upstream", "admin"} {
						for _, route := range w.routes[port] {
							slow := strings.Contains(route, "seconds=1")
							for i, cs := range cases {
								if slow && i > 12 {
									break
								}
								authCase(w, port, route, cs.T, cs.H)
							}
						}
					}
					w.close()
				}
			}
		}
		// time: a token is accepted until it expires, however often it was accepted before
		for i, ks := range sf.KeySets {
			if i > 0 && sf.Random < 100 {
				break // quick tier: the first key configuration only
			}
			for _, noDisc := range []bool{false, true} {
				c := Conf{Keys: ks, NoDisc: noDisc}
				w, err := newWorld(c, nil, []string{"e", "e1"})
				if err != nil {
					fmt.Fprintln(os.Stderr, "aeng: start:", err)
					os.Exit(2)
				}
				reset()
				ports := map[string][]string{}
				for port, rs := range w.routes {
					for _, r := range rs {
						if !strings.Contains(r, "seconds=1") && len(ports[port]) < 4 {
							ports[port] = append(ports[port], r)
						}
					}
				}
				temporalCases(w, ports, emit)
				w.close()
			}
		}
		// an upstream port with a tenant table, with and without a default key
		reset()
		for _, noDefault := range []bool{true, false} {
			tenantAuthCases(Conf{Keys: []string{"HS"}}, noDefault, func(w *world) []string { return w.routes["upstream"] }, emit)
		}
	} else {
		confs := [][]string{{"HS"}}
		claimSets := [][]string{nil, {"e"}, {"e1"}, {"e", "e1"}, {"other"}, {"E"}, {"e "}, {""}}
		hosts := []string{"", "e", "e1", "other"}
		if sf.Deep {
			confs = [][]string{{"HS"}, {"RS"}, {"ES"}, {"JWKS"}, {"HS", "RS", "ES"}}
			claimSets = append(claimSets, []string{"e", "other"}, []string{"e1", "E"}, []string{"e.x"}, []string{"e", "e", "e1"}, []string{"ee"}, []string{"e1e"})
			hosts = append(hosts, "E", "ee")
		}
		var c Conf
		for _, keys := range confs {
			c = Conf{Keys: keys}
			w, err := newWorld(c, nil, []string{"e", "e1"})
			if err != nil {
				fmt.Fprintln(os.Stderr, "aeng: start:", err)
				os.Exit(2)
			}
			reset()
			for _, eps := range claimSets {
				t := goodTok(c)
				t.Eps = eps
				for _, host := range hosts {
					for _, hd := range hosts {
						for _, route := range []string{"GET /", "GET /some/path?q=1", "POST /"} {
							endpointCase(w, route, t, Tgt{Host: host, Header: hd}, emit)
						}
						// the same request claiming to have been forwarded by another node
						endpointCase(w, "GET /", t, Tgt{Host: host, Header: hd, Fwd: true}, emit)
					}
				}
				for _, ep := range []string{"e", "e1", "other"} {
					endpointCase(w, "GET /_piko/v1/tcp/"+ep, t, Tgt{Path: ep}, emit)
					endpointCase(w, "GET /_piko/v1/tcp/"+ep, t, Tgt{Path: ep, Fwd: true}, emit)
					// the path names the endpoint that is routed to, whatever Host and header say
					for _, host := range hosts {
						for _, hd := range hosts {
							if host != "" || hd != "" {
								endpointCase(w, "GET /_piko/v1/tcp/"+ep, t, Tgt{Host: host, Header: hd, Path: ep}, emit)
							}
						}
					}
					listenCase(w, ep, t, emit)
				}
			}
			w.close()
		}
		c = Conf{Keys: []string{"HS"}}
		var tens []Ten
		for _, table := range [][]string{nil, {"t1"}, {"t1", "t2"}} {
			for _, h := range []string{"", "t1", "t2", "tx"} {
				for _, sfor := range []string{"default", "t1", "t2"} {
					tens = append(tens, Ten{Table: table, Hdr: h, SignedFor: sfor})
					if len(table) > 0 {
						// the natural multi-tenant set-up: tenants only, no default key on the upstream port
						tens = append(tens, Ten{Table: table, Hdr: h, SignedFor: sfor, NoDefault: true})
					}
				}
			}
		}
		tenantCases(c, tens, emit)
	}
	writeStats(*statsPath, steps, byOp, len(distinct))
}

// endpointCase: a request through the proxy port with a valid token carrying endpoint claims.
func endpointCase(w *world, route string, t Tok, tgt Tgt, emit func(*Step)) {
	tokStr := makeToken(t, hmacConf)
	h := Hdr{X: "absent", Authz: "good", Scheme: "Bearer"}
	before := w.hits()
	st, served := w.send("proxy", route, h, tokStr, tgt, "")
	emit(&Step{Op: "Endpoint", Port: "proxy", Route: route, Conf: w.conf, Tok: t, Hdr: h, Tgt: tgt,
		Status: st, Served: served, Hits: w.hits() - before})
}

// listenCase: an upstream tries to listen on endpoint ep with a valid token carrying endpoint claims.
func listenCase(w *world, ep string, t Tok, emit func(*Step)) {
	tokStr := makeToken(t, hmacConf)
	id := "probe-" + ep
	n2 := w.nodes[1] // register on the second node so the first node's upstreams are not disturbed
	before, _ := n2.UpstreamEndpoints(w.admin)
	up := &client.Upstream{URL: &url.URL{Scheme: "http", Host: n2.UpstreamAddr()}, Token: tokStr}
	ctx, cancel := context.WithTimeout(context.Background(), 3*time.Second)
	ln, err := up.Listen(ctx, ep)
	cancel()
	s := &Step{Op: "Listen", Port: "upstream", Route: ep, Conf: w.conf, Tok: t, Tgt: Tgt{Path: ep},
		Hdr: Hdr{X: "absent", Authz: "good", Scheme: "Bearer"}}
	_ = id
	if err != nil {
		s.Status = 401
		if !strings.Contains(err.Error(), "401") {
			s.Status = -1
		}
	} else {
		s.Status = 101
		psim.WaitFor(2*time.Second, func() bool {
			m, _ := n2.UpstreamEndpoints(w.admin)
			for e, c := range m {
				if c > before[e] {
					s.Reg = e
					return true
				}
			}
			return false
		})
		_ = ln.Shutdown()
		psim.WaitFor(2*time.Second, func() bool {
			m, _ := n2.UpstreamEndpoints(w.admin)
			return m[s.Reg] == before[s.Reg]
		})
	}
	emit(s)
}

// tenantCases: upstream port with a tenant table; every (tenant header, signing key) pairing.
func tenantCases(c Conf, tens []Ten, emit func(*Step)) {
	secrets := map[string][]byte{"default": hmacConf, "t1": []byte("tenant-one-secret"), "t2": []byte("tenant-two-secret")}
	worlds := map[string]*world{}
	for _, tn := range tens {
		key := strings.Join(tn.Table, ",") + fmt.Sprint(tn.NoDefault)
		w, ok := worlds[key]
		if !ok {
			var tcs []config.TenantConfig
			for _, id := range tn.Table {
				tcs = append(tcs, config.TenantConfig{ID: id, Auth: auth.Config{HMACSecretKey: string(secrets[id])}})
			}
			var err error
			w, err = newWorldOpt(c, tcs, nil, tn.NoDefault)
			if err != nil {
				fmt.Fprintln(os.Stderr, "aeng: start tenants:", err)
				os.Exit(2)
			}
			worlds[key] = w
		}
		t := goodTok(c)
		tokStr := makeToken(t, secrets[tn.SignedFor])
		n := w.nodes[0]
		up := &client.Upstream{URL: &url.URL{Scheme: "http", Host: n.UpstreamAddr()}, Token: tokStr, TenantID: tn.Hdr}
		ctx, cancel := context.WithTimeout(context.Background(), 3*time.Second)
		ln, err := up.Listen(ctx, "e")
		cancel()
		s := &Step{Op: "Tenant", Port: "upstream", Route: "e", Conf: c, Tok: t, Ten: tn,
			Hdr: Hdr{X: "absent", Authz: "good", Scheme: "Bearer"}}
		if err != nil {
			s.Status = 401
			if !strings.Contains(err.Error(), "401") {
				s.Status = -1
			}
		} else {
			s.Status = 101
			s.Reg = "e"
			_ = ln.Shutdown()
			time.Sleep(20 * time.Millisecond)
		}
		emit(s)
	}
	for _, w := range worlds {
		w.close()
	}
}

// temporalCases: tokens that are valid when first presented and have expired when presented again, on every
// port, with and without disable_disconnect_on_expiry; plus a token first presented after its expiry.
func temporalCases(w *world, ports map[string][]string, emit func(*Step)) {
	t := goodTok(w.conf)
	t.Exp = "soon"
	h := Hdr{X: "absent", Authz: "good", Scheme: "Bearer"}
	made := time.Now()
	again := makeToken(t, hmacConf)
	t2 := t
	t2.Eps = []string{"e"} // a different token string, never presented before its expiry
	fresh := makeToken(t2, hmacConf)
	present := func(tok Tok, str, when string, seen bool) {
		for _, port := range []string{"proxy", "upstream", "admin"} {
			for _, route := range ports[port] {
				before := w.hits()
				st, served := w.send(port, route, h, str, Tgt{Host: "e"}, "")
				emit(&Step{Op: "Auth", Port: port, Route: route, Conf: w.conf, Tok: tok, Hdr: h, Tgt: Tgt{Host: "e"},
					Status: st, Served: served, Hits: w.hits() - before, When: when, Seen: seen})
			}
		}
	}
	present(t, again, "before", false)
	present(t, again, "before", true)
	if d := time.Until(made.Add(soonAfter + 1200*time.Millisecond)); d > 0 {
		time.Sleep(d)
	}
	present(t, again, "after", true)
	present(t2, fresh, "after", false)
}

// tenantAuthCases: plain requests to the routes of an upstream port that has a tenant table, with and without a
// default key: nothing gets past the middleware without a token of the named tenant.
func tenantAuthCases(c Conf, noDefault bool, routes func(w *world) []string, emit func(*Step)) {
	secrets := map[string][]byte{"default": hmacConf, "t1": []byte("tenant-one-secret")}
	tcs := []config.TenantConfig{{ID: "t1", Auth: auth.Config{HMACSecretKey: string(secrets["t1"])}}}
	w, err := newWorldOpt(c, tcs, nil, noDefault)
	if err != nil {
		fmt.Fprintln(os.Stderr, "aeng: start tenants:", err)
		os.Exit(2)
	}
	defer w.close()
	good := Hdr{X: "absent", Authz: "good", Scheme: "Bearer"}
	none := Hdr{X: "absent", Authz: "absent", Scheme: "Bearer"}
	type tc struct {
		h      Hdr
		signer string
		sfor   string
		tenant string
	}
	cases := []tc{
		{none, "conf", "default", ""}, {none, "conf", "t1", "t1"}, {none, "conf", "t1", "tx"},
		{good, "conf", "default", ""}, {good, "conf", "t1", ""}, {good, "conf", "t1", "t1"},
		{good, "conf", "default", "t1"}, {good, "other", "t1", "t1"}, {good, "conf", "t1", "tx"},
		{good, "unsigned", "t1", "t1"},
	}
	for _, route := range routes(w) {
		for _, x := range cases {
			t := goodTok(c)
			t.Signer = x.signer
			tokStr := makeToken(t, secrets[x.sfor])
			st, _ := w.send("upstream", route, x.h, tokStr, Tgt{}, x.tenant)
			emit(&Step{Op: "TenantAuth", Port: "upstream", Route: route, Conf: c, Tok: t, Hdr: x.h,
				Ten: Ten{Table: []string{"t1"}, Hdr: x.tenant, SignedFor: x.sfor, NoDefault: noDefault}, Status: st})
		}
	}
}

func writeStats(path string, steps int, byOp map[string]int, distinct int) {
	if path == "" {
		return
	}
	b, _ := json.Marshal(map[string]interface{}{"steps": steps, "behaviours": byOp["Reset"], "by_op": byOp,
		"distinct_outcomes": distinct})
	_ = os.WriteFile(path, b, 0o644)
}
