// feng replays arrival sequences into the real accrual failure detector
// (pkg/gossip/failuredetector.go) and writes one ndjson line per call, with the
// arrival window read back from the detector and the suspicion level it
// reports, for validation against spec/TraceF.tla.
package main

import (
	"bufio"
	"encoding/json"
	"flag"
	"fmt"
	"math"
	"math/rand"
	"os"
	"time"

	"github.com/andydunstall/piko/pkg/gossip"
)

const unit = time.Millisecond

type Step struct {
	Op     string `json:"op"`  // Reset | Report | Query
	Gap    int    `json:"gap"` // Report: gap since the previous arrival; Query: time since the last arrival
	W      int    `json:"w"`
	B      int    `json:"b"`
	Buf    []int  `json:"buf"`
	Index  int    `json:"index"`
	IsFull bool   `json:"isFull"`
	Sum    int    `json:"sum"`
	Seen   bool   `json:"seen"`
	Level  int    `json:"level"` // suspicion level * 10000, rounded
	Nan    bool   `json:"nan"`
	Cmd    string `json:"cmd"`
}

type sched struct {
	W          int               `json:"w"`
	B          int               `json:"b"`
	Behaviours [][][]interface{} `json:"behaviours"`
	Walks      int               `json:"walks"`
	Depth      int               `json:"depth"`
	MaxGap     int               `json:"maxGap"`
}

type world struct {
	d    *gossip.VerifAccrual
	w, b int
	now  time.Time
	last time.Time
}

func newWorld(w, b int) *world {
	return &world{
		d: gossip.NewVerifAccrual(time.Duration(b)*unit, w), w: w, b: b,
		now: time.Unix(1700000000, 0),
	}
}

func (x *world) observe(s *Step) {
	s.W, s.B = x.w, x.b
	iv, idx, full, sum, last, ok := x.d.Window("peer")
	s.Buf = make([]int, x.w)
	if ok {
		for i, v := range iv {
			s.Buf[i] = int(v / int64(unit))
			if v%int64(unit) != 0 {
				s.Buf[i] = -1
			}
		}
		s.Index, s.IsFull, s.Sum = idx, full, int(sum/int64(unit))
		s.Seen = !last.IsZero()
	}
}

func (x *world) report(gap int) *Step {
	s := &Step{Op: "Report", Gap: gap, Cmd: fmt.Sprintf(`["Report",%d]`, gap)}
	if x.last.IsZero() {
		x.last = x.now
	} else {
		x.last = x.last.Add(time.Duration(gap) * unit)
	}
	x.d.ReportAt("peer", x.last)
	x.observe(s)
	return s
}

func (x *world) query(d int) *Step {
	if x.last.IsZero() {
		return nil
	}
	s := &Step{Op: "Query", Gap: d, Cmd: fmt.Sprintf(`["Query",%d]`, d)}
	lvl := x.d.LevelAt("peer", x.last.Add(time.Duration(d)*unit))
	if math.IsNaN(lvl) || math.IsInf(lvl, 0) {
		s.Nan = true
	} else {
		s.Level = int(math.Round(lvl * 10000))
	}
	x.observe(s)
	return s
}

func num(v interface{}) int {
	f, _ := v.(float64)
	return int(f)
}

func main() {
	schedPath := flag.String("schedules", "", "")
	outPath := flag.String("out", "", "")
	statsPath := flag.String("stats", "", "")
	seed := flag.Int64("seed", 1, "")
	flag.Parse()
	raw, err := os.ReadFile(*schedPath)
	if err != nil {
		fmt.Fprintln(os.Stderr, "feng:", err)
		os.Exit(2)
	}
	var sf sched
	if err := json.Unmarshal(raw, &sf); err != nil {
		fmt.Fprintln(os.Stderr, "feng:", err)
		os.Exit(2)
	}
	out, err := os.Create(*outPath)
	if err != nil {
		fmt.Fprintln(os.Stderr, "feng:", err)
		os.Exit(2)
	}
	defer out.Close()
	bw := bufio.NewWriterSize(out, 1<<20)
	defer bw.Flush()
	enc := json.NewEncoder(bw)
	steps, behaviours := 0, 0
	byOp := map[string]int{}
	emit := func(s *Step) {
		if s == nil {
			return
		}
		steps++
		byOp[s.Op]++
		_ = enc.Encode(s)
	}
	reset := func(x *world) {
		s := &Step{Op: "Reset", Cmd: `["Reset"]`}
		x.observe(s)
		emit(s)
		behaviours++
	}
	rng := rand.New(rand.NewSource(*seed))
	queries := func(x *world, maxGap int) {
		// the level at the moment of arrival, shortly after, around the threshold and far beyond
		for _, d := range []int{0, 1, rng.Intn(maxGap + 1), maxGap, 20*maxGap + 1} {
			emit(x.query(d))
		}
	}
	for _, beh := range sf.Behaviours {
		x := newWorld(sf.W, sf.B)
		reset(x)
		for _, a := range beh {
			switch a[0] {
			case "Report":
				emit(x.report(num(a[1])))
				queries(x, sf.MaxGap)
			case "Query":
				emit(x.query(num(a[1])))
			}
		}
	}
	for i := 0; i < sf.Walks; i++ {
		x := newWorld(sf.W, sf.B)
		reset(x)
		base := 1 + rng.Intn(sf.MaxGap)
		for d := 0; d < sf.Depth; d++ {
			gap := 1 + rng.Intn(sf.MaxGap)
			if rng.Intn(3) > 0 {
				gap = base // mostly steady arrivals
			}
			emit(x.report(gap))
			if rng.Intn(4) == 0 {
				queries(x, sf.MaxGap)
			}
		}
		queries(x, sf.MaxGap)
	}
	if *statsPath != "" {
		b, _ := json.Marshal(map[string]interface{}{"steps": steps, "behaviours": behaviours, "by_op": byOp})
		_ = os.WriteFile(*statsPath, b, 0o644)
	}
}
