// feng replays arrival sequences into the real accrual failure detector
// (pkg/gossip/failuredetector.go) and writes one ndjson line per call, with the
// arrival window read back from the detector and the suspicion level it
// reports, for validation against spec/TraceF.tla.
package main

import (
	"bufio"
	"encoding/json"
	"flag"
	"fmt"
	"math"
	"math/rand"
	"os"
	"time"

	"github.com/andydunstall/piko/pkg/gossip"
)

const unit = time.Millisecond

type Step struct {
	Op     string `json:"op"`  // Reset | Report | Query
	Gap    int    `json:"gap"` // Report: gap since the previous arrival; Query: time since the last arrival
	W      int    `json:"w"`
	B      int    `json:"b"`
	Buf    []int  `json:"buf"`
	Index  int    `json:"index"`
	IsFull bool   `json:"isFull"`
	Sum    int    `json:"sum"`
	Seen   bool   `json:"seen"`
	Level  int    `json:"level"` // suspicion level * 10000, rounded
	Nan    bool   `json:"nan"`
	Cmd    string `json:"cmd"`
}

type sched struct {
	W          int               `json:"w"`
	B          int               `json:"b"`
	Behaviours [][][]interface{} `json:"behaviours"`
	Walks      int               `json:"walks"`
	Depth      int               `json:"depth"`
	MaxGap     int               `json:"maxGap"`
}

// world is one detector that tracks several peers. Every call is recorded once per peer: as the call itself
// in the view of the peer it names and as "Other" (with that peer's window read back) in the view of every
// other peer. A view is a single-peer trace for TraceF.tla.
type world struct {
	d     *gossip.VerifAccrual
	w, b  int
	now   time.Time
	cur   int // the peer the next call names
	last  []time.Time
	views [][]*Step
}

// "s" is only named when a recorded view of "q" or "r" is replayed (there it stands for "peer")
var peerNames = []string{"peer", "q", "r", "s"}

const otherPeers = 2

func newWorld(w, b int) *world {
	return &world{
		d: gossip.NewVerifAccrual(time.Duration(b)*unit, w), w: w, b: b,
		now:   time.Unix(1700000000, 0),
		last:  make([]time.Time, len(peerNames)),
		views: make([][]*Step, len(peerNames)),
	}
}

// record appends the call to the view of the peer it names and an "Other" line to every other view.
func (x *world) record(s *Step) *Step {
	if s == nil {
		return nil
	}
	x.observePeer(s, x.cur)
	x.views[x.cur] = append(x.views[x.cur], s)
	for i := range peerNames {
		if i != x.cur {
			o := &Step{Op: "Other", Cmd: fmt.Sprintf(`["Other",%q,%s]`, peerNames[x.cur], s.Cmd)}
			x.observePeer(o, i)
			x.views[i] = append(x.views[i], o)
		}
	}
	return s
}

func (x *world) observe(s *Step) { x.observePeer(s, x.cur) }

func (x *world) observePeer(s *Step, peer int) {
	s.W, s.B = x.w, x.b
	iv, idx, full, sum, last, ok := x.d.Window(peerNames[peer])
	s.Buf = make([]int, x.w)
	if ok {
		for i, v := range iv {
			s.Buf[i] = int(v / int64(unit))
			if v%int64(unit) != 0 {
				s.Buf[i] = -1
			}
		}
		s.Index, s.IsFull, s.Sum = idx, full, int(sum/int64(unit))
		s.Seen = !last.IsZero()
	}
}

func (x *world) report(gap int) *Step {
	s := &Step{Op: "Report", Gap: gap, Cmd: fmt.Sprintf(`["Report",%d]`, gap)}
	if x.last[x.cur].IsZero() {
		x.last[x.cur] = x.now
	} else {
		x.last[x.cur] = x.last[x.cur].Add(time.Duration(gap) * unit)
	}
	x.d.ReportAt(peerNames[x.cur], x.last[x.cur])
	return x.record(s)
}

func (x *world) level(s *Step, t time.Time) {
	lvl := x.d.LevelAt(peerNames[x.cur], t)
	if math.IsNaN(lvl) || math.IsInf(lvl, 0) {
		s.Nan = true
	} else {
		s.Level = int(math.Round(lvl * 10000))
	}
}

func (x *world) query(d int) *Step {
	if x.last[x.cur].IsZero() {
		return nil
	}
	s := &Step{Op: "Query", Gap: d, Cmd: fmt.Sprintf(`["Query",%d]`, d)}
	x.level(s, x.last[x.cur].Add(time.Duration(d)*unit))
	return x.record(s)
}

// queryNew asks for the level of a peer that has no window: the detector counts the query as its first arrival.
func (x *world) queryNew() *Step {
	if !x.last[x.cur].IsZero() {
		return nil
	}
	s := &Step{Op: "QueryNew", Cmd: `["FirstQuery"]`}
	x.last[x.cur] = x.now
	x.level(s, x.now)
	return x.record(s)
}

func (x *world) remove() *Step {
	s := &Step{Op: "Remove", Cmd: `["Remove"]`}
	x.d.Remove(peerNames[x.cur])
	x.last[x.cur] = time.Time{}
	return x.record(s)
}

func num(v interface{}) int {
	f, _ := v.(float64)
	return int(f)
}

func main() {
	schedPath := flag.String("schedules", "", "")
	outPath := flag.String("out", "", "")
	statsPath := flag.String("stats", "", "")
	seed := flag.Int64("seed", 1, "")
	flag.Parse()
	raw, err := os.ReadFile(*schedPath)
	if err != nil {
		fmt.Fprintln(os.Stderr, "feng:", err)
		os.Exit(2)
	}
	var sf sched
	if err := json.Unmarshal(raw, &sf); err != nil {
		fmt.Fprintln(os.Stderr, "feng:", err)
		os.Exit(2)
	}
	out, err := os.Create(*outPath)
	if err != nil {
		fmt.Fprintln(os.Stderr, "feng:", err)
		os.Exit(2)
	}
	defer out.Close()
	bw := bufio.NewWriterSize(out, 1<<20)
	defer bw.Flush()
	enc := json.NewEncoder(bw)
	steps, behaviours := 0, 0
	byOp := map[string]int{}
	emit := func(s *Step) {
		if s == nil {
			return
		}
		steps++
		byOp[s.Op]++
		_ = enc.Encode(s)
	}
	// flush writes the views of the peers that were named by at least one call, each as a behaviour of its own
	flush := func(x *world) {
		for i, v := range x.views {
			own := false
			for _, s := range v {
				own = own || s.Op != "Other"
			}
			if !own && i != 0 {
				continue
			}
			r := &Step{Op: "Reset", Cmd: fmt.Sprintf(`["Reset",%q]`, peerNames[i]), W: x.w, B: x.b, Buf: make([]int, x.w)}
			emit(r)
			behaviours++
			for _, s := range v {
				emit(s)
			}
		}
	}
	rng := rand.New(rand.NewSource(*seed))
	queries := func(x *world, maxGap int) {
		// the level at the moment of arrival, shortly after, around the threshold and far beyond
		for _, d := range []int{0, 1, rng.Intn(maxGap + 1), maxGap, 20*maxGap + 1} {
			x.query(d)
		}
	}
	// other makes a call that names another peer: the peer under test must not notice
	other := func(x *world, maxGap int) {
		keep := x.cur
		x.cur = 1 + rng.Intn(otherPeers)
		switch k := rng.Intn(10); {
		case k < 6:
			x.report(1 + rng.Intn(maxGap))
		case k < 8:
			if x.query(rng.Intn(2*maxGap)) == nil {
				x.queryNew()
			}
		default:
			x.remove()
		}
		x.cur = keep
	}
	var exec func(x *world, a []interface{}, probe bool)
	exec = func(x *world, a []interface{}, probe bool) {
		switch a[0] {
		case "Report":
			x.report(num(a[1]))
		case "Query":
			x.query(num(a[1]))
			return
		case "FirstQuery":
			x.queryNew()
		case "Remove":
			x.remove()
			return
		case "Other": // a recorded view being replayed
			name, _ := a[1].(string)
			inner, _ := a[2].([]interface{})
			keep := x.cur
			x.cur = len(peerNames) - 1
			for i, n := range peerNames[1:] {
				if n == name {
					x.cur = i + 1
				}
			}
			if len(inner) > 0 {
				exec(x, inner, false)
			}
			x.cur = keep
			return
		default:
			return
		}
		if probe {
			queries(x, sf.MaxGap)
		}
	}
	for bi, beh := range sf.Behaviours {
		x := newWorld(sf.W, sf.B)
		for _, a := range beh {
			exec(x, a, true)
			// every other behaviour is interleaved with calls that name other peers
			for bi%2 == 1 && rng.Intn(2) == 0 {
				other(x, sf.MaxGap)
			}
		}
		flush(x)
	}
	for i := 0; i < sf.Walks; i++ {
		x := newWorld(sf.W, sf.B)
		base := 1 + rng.Intn(sf.MaxGap)
		for d := 0; d < sf.Depth; d++ {
			gap := 1 + rng.Intn(sf.MaxGap)
			if rng.Intn(12) == 0 {
				base = 1 + rng.Intn(sf.MaxGap) // the peer's rhythm changes, possibly by orders of magnitude
			}
			if rng.Intn(3) > 0 {
				gap = base // mostly steady arrivals
			}
			switch k := rng.Intn(40); {
			case k == 0:
				x.remove()
			case k == 1:
				if x.queryNew() == nil {
					x.report(gap)
				}
			default:
				x.report(gap)
			}
			if rng.Intn(4) == 0 {
				queries(x, sf.MaxGap)
			}
			for i%2 == 1 && rng.Intn(3) == 0 {
				other(x, sf.MaxGap)
			}
		}
		queries(x, sf.MaxGap)
		flush(x)
	}
	if *statsPath != "" {
		b, _ := json.Marshal(map[string]interface{}{"steps": steps, "behaviours": behaviours, "by_op": byOp})
		_ = os.WriteFile(*statsPath, b, 0o644)
	}
}
