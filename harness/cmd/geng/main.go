// geng executes schedules (sequences of spec action labels produced by TLC,
// or random walks) on real piko gossip nodes and writes one ndjson trace line
// per step for validation against spec/TraceG.tla.
package main

import (
	"bufio"
	"encoding/hex"
	"encoding/json"
	"flag"
	"fmt"
	"math/rand"
	"os"
	"strconv"
	"strings"

	"verifharness/internal/gsim"
)

type schedFile struct {
	Nodes      []string          `json:"nodes"`
	InitKnown  bool              `json:"initKnown"`
	Routing    bool              `json:"routing"`
	Streams    bool              `json:"streams"`
	Endpoints  []string          `json:"endpoints"`
	MaxSlots   int               `json:"maxSlots"`
	Behaviours [][][]interface{} `json:"behaviours"`
	// Random walks (used when Behaviours is empty)
	Walks   int      `json:"walks"`
	Depth   int      `json:"depth"`
	Keys    []string `json:"keys"`
	Vals    []string `json:"vals"`
	Writers []string `json:"writers"`
	Masked  bool     `json:"masked"`
	Crash   []string `json:"crashers"`
	Closure bool     `json:"closure"`
	// C13: encoder sweeps and hostile input
	EncodeSweeps int  `json:"encodeSweeps"`
	FullSweep    bool `json:"fullSweep"`
	Hostile      int  `json:"hostile"`
}

func str(x interface{}) string {
	s, _ := x.(string)
	return s
}
func num(x interface{}) int {
	switch v := x.(type) {
	case float64:
		return int(v)
	case string:
		n, _ := strconv.Atoi(v)
		return n
	}
	return 0
}
func boolean(x interface{}) bool {
	b, _ := x.(bool)
	return b
}

type stats struct {
	Behaviours int      `json:"behaviours"`
	Steps      int      `json:"steps"`
	Skipped    int      `json:"skipped"`
	Datagrams  int      `json:"datagrams"`
	MaxDgram   int      `json:"max_datagram"`
	OverBudget []string `json:"over_budget"`
	ByOp       map[string]int `json:"by_op"`
}

func main() {
	schedPath := flag.String("schedules", "", "schedule file (json)")
	outPath := flag.String("out", "", "trace output (ndjson)")
	statsPath := flag.String("stats", "", "stats output (json)")
	seed := flag.Int64("seed", 1, "seed")
	flag.Parse()

	rand.Seed(*seed)

	raw, err := os.ReadFile(*schedPath)
	if err != nil {
		fmt.Fprintln(os.Stderr, "geng:", err)
		os.Exit(2)
	}
	var sf schedFile
	if err := json.Unmarshal(raw, &sf); err != nil {
		fmt.Fprintln(os.Stderr, "geng:", err)
		os.Exit(2)
	}
	out, err := os.Create(*outPath)
	if err != nil {
		fmt.Fprintln(os.Stderr, "geng:", err)
		os.Exit(2)
	}
	defer out.Close()
	w := bufio.NewWriterSize(out, 1<<20)
	defer w.Flush()
	enc := json.NewEncoder(w)

	st := stats{ByOp: map[string]int{}}
	opts := gsim.Options{Nodes: sf.Nodes, Routing: sf.Routing, Streams: sf.Streams, InitKnown: sf.InitKnown, Endpoints: sf.Endpoints, MaxSlots: sf.MaxSlots}

	emit := func(s *gsim.Step) {
		if s == nil {
			st.Skipped++
			return
		}
		st.Steps++
		st.ByOp[s.Op]++
		if err := enc.Encode(s); err != nil {
			fmt.Fprintln(os.Stderr, "geng:", err)
			os.Exit(2)
		}
	}

	runOne := func(run func(c *gsim.Cluster)) {
		c, err := gsim.NewCluster(opts)
		if err != nil {
			fmt.Fprintln(os.Stderr, "geng:", err)
			os.Exit(2)
		}
		r := c.Reset()
		emit(&r)
		run(c)
		st.Behaviours++
		st.Datagrams += c.Datagrams
		if c.MaxDatagram > st.MaxDgram {
			st.MaxDgram = c.MaxDatagram
		}
		st.OverBudget = append(st.OverBudget, c.OverBudget...)
		c.Close()
	}

	for _, beh := range sf.Behaviours {
		beh := beh
		runOne(func(c *gsim.Cluster) {
			for _, a := range beh {
				if len(a) > 0 && str(a[0]) == "Sweeps" {
					c.Sweeps(num(a[1]), num(a[2]), emit)
					continue
				}
				if len(a) > 0 && str(a[0]) == "AutoRounds" {
					c.AutoRounds(num(a[1]), emit)
					continue
				}
				if len(a) > 0 && str(a[0]) == "SelectionStats" {
					c.SelectionStats(str(a[1]), num(a[2]), emit)
					continue
				}
				if len(a) > 0 && str(a[0]) == "Closure" {
					max := num(a[1])
					if max < 0 {
						max = c.MinPacket()
					}
					c.Closure(max, num(a[2]), emit)
					continue
				}
				emit(exec(c, a))
			}
		})
	}
	if len(sf.Behaviours) == 0 && sf.Walks > 0 {
		rng := rand.New(rand.NewSource(*seed))
		for i := 0; i < sf.Walks; i++ {
			runOne(func(c *gsim.Cluster) {
				walk(c, &sf, rng, emit)
				if sf.Closure {
					// C03: writes have stopped; fair exchanges with a packet size
					// between "the largest entry just fits" and "everything fits"
					max := 0
					switch rng.Intn(3) {
					case 0:
						max = c.MinPacket()
					case 1:
						max = c.MinPacket() + rng.Intn(200)
					}
					c.Closure(max, 200, emit)
				}
			})
		}
	}

	if sf.EncodeSweeps > 0 {
		rng := rand.New(rand.NewSource(*seed + 1000))
		runOne(func(c *gsim.Cluster) {
			encodeSweeps(c, rng, sf.EncodeSweeps, sf.FullSweep, emit)
		})
	}
	if sf.Hostile > 0 {
		rng := rand.New(rand.NewSource(*seed + 2000))
		for i := 0; i < 1+sf.Hostile/400; i++ {
			runOne(func(c *gsim.Cluster) {
				defer func() {
					if r := recover(); r != nil {
						if h, ok := r.(gsim.Hang); ok {
							w.Flush()
							fmt.Fprintln(os.Stderr, "HANG:", h.What)
							os.Exit(3)
						}
						panic(r)
					}
				}()
				n := sf.Hostile
				if n > 400 {
					n = 400
				}
				hostile(c, &sf, rng, n, emit)
			})
		}
	}

	if *statsPath != "" {
		b, _ := json.Marshal(st)
		_ = os.WriteFile(*statsPath, b, 0o644)
	}
}

// exec maps a spec action label to a call on the real nodes.
func exec(c *gsim.Cluster, a []interface{}) *gsim.Step {
	if len(a) == 0 {
		return nil
	}
	arg := func(i int) interface{} {
		if i < len(a) {
			return a[i]
		}
		return nil
	}
	switch str(a[0]) {
	case "DoUpsert":
		return c.Upsert(str(arg(1)), str(arg(2)), str(arg(3)))
	case "DoDelete":
		return c.Delete(str(arg(1)), str(arg(2)))
	case "DoLeave":
		return c.LeaveLocal(str(arg(1)))
	case "DoCompact":
		return c.Compact(str(arg(1)), 1)
	case "DoAddEndpoint":
		return c.AddEndpoint(str(arg(1)), strings.TrimPrefix(str(arg(2)), "endpoint:"))
	case "DoRemoveEndpoint":
		return c.RemoveEndpoint(str(arg(1)), strings.TrimPrefix(str(arg(2)), "endpoint:"))
	case "DoRound":
		return c.Round(str(arg(1)), str(arg(2)), 0)
	case "DoRecvDigest":
		return c.RecvDigest(num(arg(1)), boolean(arg(2)), num(arg(3)), 0, false)
	case "DoRecvDelta":
		return c.RecvDelta(num(arg(1)), boolean(arg(2)))
	case "DoLose":
		return c.Lose(num(arg(1)))
	case "DoJoin":
		return c.Join(str(arg(1)), str(arg(2)))
	case "DoLeaveNotify":
		return c.LeaveNotify(str(arg(1)), str(arg(2)))
	case "DoSuspect":
		return c.Suspect(str(arg(1)), str(arg(2)), boolean(arg(3)))
	case "DoLiveness":
		return c.Liveness(str(arg(1)))
	case "DoExpire":
		return c.Expire(str(arg(1)), num(arg(2)))
	case "DoCrash":
		return c.Crash(str(arg(1)))
	// OwnMap.tla labels
	case "CallUpsert":
		return c.Upsert(str(arg(1)), str(arg(2)), str(arg(3)))
	case "CallDelete":
		return c.Delete(str(arg(1)), str(arg(2)))
	case "CallLeave":
		return c.LeaveLocal(str(arg(1)))
	case "CallCompact":
		return c.Compact(str(arg(1)), num(arg(2)))
	// raw calls (replay files and hand-written scenarios)
	case "UpsertLocal":
		return c.Upsert(str(arg(1)), str(arg(2)), str(arg(3)))
	case "DeleteLocal":
		return c.Delete(str(arg(1)), str(arg(2)))
	case "LeaveLocal":
		return c.LeaveLocal(str(arg(1)))
	case "CompactLocal":
		return c.Compact(str(arg(1)), num(arg(2)))
	case "AddEndpoint":
		return c.AddEndpoint(str(arg(1)), str(arg(2)))
	case "RemoveEndpoint":
		return c.RemoveEndpoint(str(arg(1)), str(arg(2)))
	case "StartRound":
		return c.Round(str(arg(1)), str(arg(2)), num(arg(3)))
	case "RecvDigest":
		return c.RecvDigest(num(arg(1)), boolean(arg(2)), -1, num(arg(3)), boolean(arg(4)))
	case "RecvDelta":
		return c.RecvDelta(num(arg(1)), boolean(arg(2)))
	case "Lose":
		return c.Lose(num(arg(1)))
	case "JoinStream":
		return c.Join(str(arg(1)), str(arg(2)))
	case "LeaveStream":
		return c.LeaveNotify(str(arg(1)), str(arg(2)))
	case "SetSuspect":
		return c.Suspect(str(arg(1)), str(arg(2)), boolean(arg(3)))
	case "UpdateLiveness":
		return c.Liveness(str(arg(1)))
	case "RemoveExpired":
		return c.Expire(str(arg(1)), num(arg(2)))
	case "Crash":
		return c.Crash(str(arg(1)))
	case "GossipRound":
		return c.GossipRound(str(arg(1)))
	case "RaceExpiry":
		return c.RaceExpiry(str(arg(1)), str(arg(2)))
	case "StalledStream":
		return c.StalledStream(str(arg(1)), str(arg(2)))
	case "Hostile":
		b, _ := hex.DecodeString(str(arg(2)))
		return c.Hostile(str(arg(1)), b, "replay")
	}
	fmt.Fprintln(os.Stderr, "geng: unknown action", a[0])
	os.Exit(2)
	return nil
}
