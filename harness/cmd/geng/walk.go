package main

import (
	"math/rand"

	"verifharness/internal/gsim"
)

// walk is a seeded random scheduler over the same action alphabet as the
// specification, with byte-level packet budgets (so truncation points are
// not limited to the model's element budgets), larger clusters and longer
// behaviours than the bounded model. It mixes single steps (which leave
// datagrams in flight, to be delivered late, twice, or never) with whole
// push-pull rounds whose replies are cut at a random element, so that
// observers are usually a few versions behind and catch up in pieces.
//
// When sf.Masked it avoids the two schedules that are known findings on the
// pinned tree (F2, F4): it never expires a view while a datagram is in flight
// towards (or a digest from) the expiring node, and never lets a node that
// holds a crashed/left peer gossip with a node that already expired that peer.
func walk(c *gsim.Cluster, sf *schedFile, rng *rand.Rand, emit func(*gsim.Step)) {
	nodes := sf.Nodes
	pick := func(xs []string) string { return xs[rng.Intn(len(xs))] }
	writers := sf.Writers
	if len(writers) == 0 {
		writers = nodes
	}
	crashed := map[string]bool{}
	left := map[string]bool{}
	expired := map[string]map[string]bool{}
	for _, n := range nodes {
		expired[n] = map[string]bool{}
	}
	membership := len(sf.Crash) > 0
	// nodes that do not know each other yet: every node joins one earlier node over the stream, so that the
	// others are first heard of through a third node (a delta or a digest naming a node not seen before)
	joining := !sf.InitKnown && sf.Streams
	if joining {
		for i := 1; i < len(nodes); i++ {
			emit(c.Join(nodes[i], nodes[rng.Intn(i)]))
		}
	}

	write := func() {
		n := pick(writers)
		if sf.Routing {
			if rng.Intn(3) > 0 {
				emit(c.AddEndpoint(n, pick(sf.Endpoints)))
			} else {
				emit(c.RemoveEndpoint(n, pick(sf.Endpoints)))
			}
			return
		}
		if rng.Intn(3) == 0 {
			emit(c.Delete(n, pick(sf.Keys)))
		} else {
			emit(c.Upsert(n, pick(sf.Keys), pick(sf.Vals)))
		}
	}
	budget := func() (cut int, max int) {
		switch rng.Intn(5) {
		case 0:
			return -1, 50 + rng.Intn(500)
		case 1, 2:
			return 1 + rng.Intn(5), 0
		}
		return -1, 0
	}
	deliver := func(slot int) {
		m, ok := c.Slots[slot]
		if !ok {
			return
		}
		keep := rng.Intn(12) == 0
		if m.T == "dig" {
			if sf.Masked && f2risk(c, m.From, m.To, crashed, left, expired) {
				emit(c.Lose(slot))
				return
			}
			cut, max := budget()
			emit(c.RecvDigest(slot, keep, cut, max, false))
		} else {
			emit(c.RecvDelta(slot, keep))
		}
	}
	slotsOf := func() map[int]bool {
		m := map[int]bool{}
		for k := range c.Slots {
			m[k] = true
		}
		return m
	}
	// a whole round a -> b; every datagram it produces is delivered, lost or left in flight
	round := func(a, b string) {
		if a == b || (sf.Masked && f2risk(c, a, b, crashed, left, expired)) {
			return
		}
		before := slotsOf()
		max := 0
		if rng.Intn(6) == 0 {
			max = 60 + rng.Intn(400)
		}
		emit(c.Round(a, b, max))
		for hop := 0; hop < 3; hop++ {
			var fresh []int
			for k := range c.Slots {
				if !before[k] {
					fresh = append(fresh, k)
				}
			}
			if len(fresh) == 0 {
				return
			}
			for i := range fresh {
				for j := i + 1; j < len(fresh); j++ {
					if fresh[j] < fresh[i] {
						fresh[i], fresh[j] = fresh[j], fresh[i]
					}
				}
			}
			for _, k := range fresh {
				switch r := rng.Intn(10); {
				case r < 7:
					deliver(k)
				case r < 8:
					emit(c.Lose(k))
				default:
					before[k] = true // stays in flight, delivered by a later single step (reordering)
				}
			}
		}
	}

	for step := 0; step < sf.Depth; step++ {
		r := rng.Intn(100)
		switch {
		case r < 18:
			for i := 1 + rng.Intn(3); i > 0; i-- {
				write()
			}
		case r < 26:
			emit(c.Compact(pick(writers), 1))
		case r < 28:
			if membership || rng.Intn(4) == 0 {
				n := pick(writers)
				emit(c.LeaveLocal(n))
				left[n] = true
			}
		case r < 58:
			round(pick(nodes), pick(nodes))
		case r < 64:
			a, b := pick(nodes), pick(nodes)
			if sf.Masked && f2risk(c, a, b, crashed, left, expired) {
				continue
			}
			emit(c.Round(a, b, 0))
		case r < 78:
			if slot := pickSlot(c, rng); slot != 0 {
				deliver(slot)
			}
		case r < 82:
			if slot := pickSlot(c, rng); slot != 0 {
				emit(c.Lose(slot))
			}
		case r < 88:
			if !membership {
				continue
			}
			o, n := pick(nodes), pick(nodes)
			// a node that is really gone stays suspected; a live node may be suspected and recover
			emit(c.Suspect(o, n, rng.Intn(2) == 0 || crashed[n]))
		case r < 93:
			emit(c.Liveness(pick(nodes)))
		case r < 97:
			if !membership {
				continue
			}
			o := pick(nodes)
			if sf.Masked && inflightTo(c, o) {
				continue
			}
			s := c.Expire(o, 1+rng.Intn(2))
			if s != nil {
				for _, id := range s.Ord {
					expired[o][id] = true
				}
			}
			emit(s)
		case r < 98:
			// whom the code's own periodic round addresses (the datagrams are dropped)
			emit(c.GossipRound(pick(nodes)))
		default:
			if joining && rng.Intn(2) == 0 {
				emit(c.Join(pick(nodes), pick(nodes)))
			}
			if membership && rng.Intn(3) == 0 {
				n := pick(sf.Crash)
				if !crashed[n] {
					crashed[n] = true
					emit(c.Crash(n))
				}
			}
		}
	}
}

func pickSlot(c *gsim.Cluster, rng *rand.Rand) int {
	if len(c.Slots) == 0 {
		return 0
	}
	var ks []int
	for k := range c.Slots {
		ks = append(ks, k)
	}
	// deterministic order for a given seed
	for i := 0; i < len(ks); i++ {
		for j := i + 1; j < len(ks); j++ {
			if ks[j] < ks[i] {
				ks[i], ks[j] = ks[j], ks[i]
			}
		}
	}
	return ks[rng.Intn(len(ks))]
}

func inflightTo(c *gsim.Cluster, o string) bool {
	for _, m := range c.Slots {
		if m.To == o || (m.From == o && m.T == "dig") {
			return true
		}
	}
	return false
}

// f2risk: an exchange between a and b could re-teach one of them a gone node
// that it has expired and the other still holds.
func f2risk(c *gsim.Cluster, a, b string, crashed, left map[string]bool, expired map[string]map[string]bool) bool {
	for _, pair := range [][2]string{{a, b}, {b, a}} {
		x, y := pair[0], pair[1]
		for id := range expired[x] {
			if !(crashed[id] || left[id]) {
				continue
			}
			if ny, ok := c.Nodes[y]; ok {
				if _, known := ny.G.Node(id); known {
					return true
				}
			}
		}
	}
	return false
}
