package main

import (
	"math/rand"

	"verifharness/internal/gsim"
)

// walk is a seeded random scheduler over the same action alphabet as the
// specification, with byte-level packet budgets (so truncation points are
// not limited to the model's element budgets), larger clusters and longer
// behaviours than the bounded model. When sf.Masked it avoids the two
// schedules that are known findings on the pinned tree (F2, F4): it never
// expires a view while a datagram is in flight towards the expiring node,
// and never lets a node that holds a crashed/left peer gossip with a node
// that already expired that peer.
func walk(c *gsim.Cluster, sf *schedFile, rng *rand.Rand, emit func(*gsim.Step)) {
	nodes := sf.Nodes
	pick := func(xs []string) string { return xs[rng.Intn(len(xs))] }
	writers := sf.Writers
	if len(writers) == 0 {
		writers = nodes
	}
	crashed := map[string]bool{}
	left := map[string]bool{}
	expired := map[string]map[string]bool{}
	for _, n := range nodes {
		expired[n] = map[string]bool{}
	}
	for step := 0; step < sf.Depth; step++ {
		r := rng.Intn(100)
		switch {
		case r < 22:
			n := pick(writers)
			if sf.Routing {
				if rng.Intn(3) > 0 {
					emit(c.AddEndpoint(n, pick(sf.Endpoints)))
				} else {
					emit(c.RemoveEndpoint(n, pick(sf.Endpoints)))
				}
				continue
			}
			if rng.Intn(4) == 0 {
				emit(c.Delete(n, pick(sf.Keys)))
			} else {
				emit(c.Upsert(n, pick(sf.Keys), pick(sf.Vals)))
			}
		case r < 26:
			emit(c.Compact(pick(writers), 1))
		case r < 28:
			n := pick(writers)
			if len(sf.Crash) > 0 {
				emit(c.LeaveLocal(n))
				left[n] = true
			}
		case r < 48:
			a, b := pick(nodes), pick(nodes)
			if sf.Masked && f2risk(c, a, b, crashed, left, expired) {
				continue
			}
			max := 0
			if rng.Intn(3) == 0 {
				max = 60 + rng.Intn(400)
			}
			emit(c.Round(a, b, max))
		case r < 82:
			slot := pickSlot(c, rng)
			if slot == 0 {
				continue
			}
			m := c.Slots[slot]
			keep := rng.Intn(10) == 0
			if m.T == "dig" {
				if sf.Masked && f2risk(c, m.From, m.To, crashed, left, expired) {
					emit(c.Lose(slot))
					continue
				}
				max := 0
				cut := -1
				switch rng.Intn(4) {
				case 0:
					max = 50 + rng.Intn(500)
				case 1:
					cut = rng.Intn(6)
				}
				emit(c.RecvDigest(slot, keep, cut, max, false))
			} else {
				emit(c.RecvDelta(slot, keep))
			}
		case r < 88:
			slot := pickSlot(c, rng)
			if slot != 0 {
				emit(c.Lose(slot))
			}
		case r < 92:
			if len(sf.Crash) == 0 {
				continue
			}
			o, n := pick(nodes), pick(nodes)
			// only nodes that are really gone get suspected for good; a live
			// node may be suspected and recover
			emit(c.Suspect(o, n, rng.Intn(2) == 0 || crashed[n]))
		case r < 95:
			emit(c.Liveness(pick(nodes)))
		case r < 98:
			if len(sf.Crash) == 0 {
				continue
			}
			o := pick(nodes)
			if sf.Masked && inflightTo(c, o) {
				continue
			}
			s := c.Expire(o, 1+rng.Intn(2))
			if s != nil {
				for _, id := range s.Ord {
					expired[o][id] = true
				}
			}
			emit(s)
		default:
			if len(sf.Crash) > 0 && rng.Intn(3) == 0 {
				n := pick(sf.Crash)
				if !crashed[n] {
					crashed[n] = true
					emit(c.Crash(n))
				}
			}
		}
	}
}

func pickSlot(c *gsim.Cluster, rng *rand.Rand) int {
	if len(c.Slots) == 0 {
		return 0
	}
	var ks []int
	for k := range c.Slots {
		ks = append(ks, k)
	}
	// deterministic order for a given seed
	for i := 0; i < len(ks); i++ {
		for j := i + 1; j < len(ks); j++ {
			if ks[j] < ks[i] {
				ks[i], ks[j] = ks[j], ks[i]
			}
		}
	}
	return ks[rng.Intn(len(ks))]
}

func inflightTo(c *gsim.Cluster, o string) bool {
	for _, m := range c.Slots {
		if m.To == o || (m.From == o && m.T == "dig") {
			return true
		}
	}
	return false
}

// f2risk: an exchange between a and b could re-teach one of them a gone node
// that it has expired and the other still holds.
func f2risk(c *gsim.Cluster, a, b string, crashed, left map[string]bool, expired map[string]map[string]bool) bool {
	for _, pair := range [][2]string{{a, b}, {b, a}} {
		x, y := pair[0], pair[1]
		for id := range expired[x] {
			if !(crashed[id] || left[id]) {
				continue
			}
			if ny, ok := c.Nodes[y]; ok {
				if _, known := ny.G.Node(id); known {
					return true
				}
			}
		}
	}
	return false
}
