package main

import (
	"strings"
	"math/rand"

	"github.com/andydunstall/piko/pkg/gossip"

	"verifharness/internal/gsim"
)

var alphabet = []string{"", "a", "k", "é", "日本", "endpoint:", "x/y", "\x00", " ", "0", "😀", "_internal:", "long-long-long-long-long-"}

func randString(rng *rand.Rand, maxParts int) string {
	n := rng.Intn(maxParts + 1)
	s := ""
	for i := 0; i < n; i++ {
		s += alphabet[rng.Intn(len(alphabet))]
	}
	return s
}

func randDelta(rng *rand.Rand) []gossip.VerifDeltaEntry {
	nodes := 1 + rng.Intn(6)
	if rng.Intn(10) == 0 {
		nodes = 0
	}
	var d []gossip.VerifDeltaEntry
	for i := 0; i < nodes; i++ {
		de := gossip.VerifDeltaEntry{ID: "n" + randString(rng, 2) + string(rune('a'+i)), Addr: "10.0.0.1:" + randString(rng, 1)}
		ver := uint64(rng.Intn(3))
		for j := rng.Intn(5); j > 0; j-- {
			ver += 1 + uint64(rng.Intn(3))
			if rng.Intn(40) == 0 {
				ver += 1 << 20
			}
			e := gossip.Entry{Key: randString(rng, 3) + string(rune('a'+j)), Value: randString(rng, 4), Version: ver}
			switch rng.Intn(8) {
			case 0:
				e.Deleted, e.Value = true, ""
			case 1:
				e.Internal, e.Key, e.Value = true, gossip.VerifLeftKey, ""
			}
			de.Entries = append(de.Entries, e)
		}
		d = append(d, de)
	}
	return d
}

func randDigest(rng *rand.Rand) []gossip.VerifDigestEntry {
	var d []gossip.VerifDigestEntry
	for i := rng.Intn(8); i > 0; i-- {
		d = append(d, gossip.VerifDigestEntry{
			ID: "n" + randString(rng, 2) + string(rune('a'+i)), Addr: "10.0.0." + randString(rng, 1),
			Version: uint64(rng.Intn(1 << uint(rng.Intn(20)))), Left: rng.Intn(4) == 0,
		})
	}
	return d
}

// budgets: below/at the header, one below / at / one above every element
// boundary, the total and total+1, and a few random sizes.
func budgets(rng *rand.Rand, hdr int, cum []int) []int {
	set := map[int]bool{hdr - 1: true, hdr: true, hdr + 1: true, 1: true}
	total := hdr
	for _, c := range cum {
		set[c-1], set[c], set[c+1] = true, true, true
		total = c
	}
	set[total+1] = true
	for i := 0; i < 8; i++ {
		set[rng.Intn(total+2)] = true
	}
	var out []int
	for k := range set {
		if k >= 0 {
			out = append(out, k)
		}
	}
	// stable order
	for i := range out {
		for j := i + 1; j < len(out); j++ {
			if out[j] < out[i] {
				out[i], out[j] = out[j], out[i]
			}
		}
	}
	return out
}

func encodeSweeps(c *gsim.Cluster, rng *rand.Rand, n int, full bool, emit func(*gsim.Step)) {
	for i := 0; i < n; i++ {
		d := randDelta(rng)
		id, addr := "sender-"+randString(rng, 1), "127.0.0.1:7000"
		hdr, cum := gossip.VerifDeltaSizes(id, addr, d)
		bs := budgets(rng, hdr, cum)
		if full {
			// every maximum packet size from below the bare header up to total+1
			total := hdr
			if len(cum) > 0 {
				total = cum[len(cum)-1]
			}
			bs = nil
			for m := hdr - 1; m <= total+1; m++ {
				bs = append(bs, m)
			}
		}
		for _, max := range bs {
			emit(c.EncodeDeltaStep(id, addr, d, max))
		}
		dg := randDigest(rng)
		// measure boundaries with the same routine the step uses
		probe := c.EncodeDigestStep(id, addr, i%2 == 0, dg, 1<<30)
		for _, max := range budgets(rng, probe.Hdr, probe.Cum) {
			emit(c.EncodeDigestStep(id, addr, i%2 == 0, dg, max))
		}
	}
}

func mutate(rng *rand.Rand, b []byte) ([]byte, string) {
	out := make([]byte, len(b))
	copy(out, b)
	if len(out) == 0 {
		return out, "empty"
	}
	switch rng.Intn(10) {
	case 9:
		// a structurally valid datagram whose node header claims an absurd entry count
		key := []byte("\xa7entries")
		var at []int
		for i := 0; i+len(key) < len(out); i++ {
			if string(out[i:i+len(key)]) == string(key) {
				at = append(at, i)
			}
		}
		if len(at) > 1 {
			at = at[1:] // the first one belongs to the packet header, which nobody reads
		}
		for _, i := range at {
			if rng.Intn(len(at)) == 0 || i == at[len(at)-1] {
				j := i + len(key)
				huge := []byte{0xcf, 0x40, 0, 0, 0, 0, 0, 0, 0} // uint64 2^62
				if rng.Intn(3) == 0 {
					huge = []byte{0xd3, 0x80, 0, 0, 0, 0, 0, 0, 0} // int64 min
				}
				if rng.Intn(4) == 0 {
					huge = []byte{0xce, 0x7f, 0xff, 0xff, 0xff} // uint32 2^31-1
				}
				// the original count is a positive fixint (one byte) in our traffic
				res := append(append(append([]byte{}, out[:j]...), huge...), out[j+1:]...)
				return res, "entries-count"
			}
		}
		return out, "entries-count-none"
	case 0:
		for i := 1 + rng.Intn(3); i > 0; i-- {
			out[rng.Intn(len(out))] ^= 1 << uint(rng.Intn(8))
		}
		return out, "bitflip"
	case 1:
		return out[:rng.Intn(len(out))], "truncate"
	case 2:
		out[0] = byte(rng.Intn(8))
		return out, "type"
	case 3:
		if len(out) > 1 {
			out[1] = byte(1 + rng.Intn(255))
		}
		return out, "version"
	case 4:
		// inflate a length / count field: msgpack array/map/str headers
		for tries := 0; tries < 20; tries++ {
			i := 2 + rng.Intn(len(out)-1)
			if i < len(out) && (out[i]&0xf0 == 0x80 || out[i]&0xf0 == 0x90 || out[i]&0xe0 == 0xa0) {
				out[i] |= 0x0f
				return out, "inflate-fix"
			}
		}
		return out, "inflate-none"
	case 5:
		i := 2 + rng.Intn(len(out)-1)
		if i < len(out) {
			// 32-bit length prefix types: str32 bin32 array32 map32
			out[i] = []byte{0xdb, 0xc6, 0xdd, 0xdf}[rng.Intn(4)]
			for j := 1; j <= 4 && i+j < len(out); j++ {
				out[i+j] = 0xff
			}
		}
		return out, "inflate-32"
	case 6:
		extra := make([]byte, 1+rng.Intn(40))
		rng.Read(extra)
		return append(out, extra...), "append-garbage"
	case 7:
		i := rng.Intn(len(out))
		j := i + rng.Intn(len(out)-i)
		return append(out[:i:i], out[j:]...), "cut-middle"
	default:
		rb := make([]byte, rng.Intn(200))
		rng.Read(rb)
		if len(rb) > 1 && rng.Intn(2) == 0 {
			rb[0], rb[1] = byte(1+rng.Intn(2)), 0
		}
		return rb, "random"
	}
}

// badEntryAfterCount rewrites the last "entries" count of a delta to a huge number and replaces the first byte
// of the element that follows (the start of an entry map) by something that is not a map.
func badEntryAfterCount(rng *rand.Rand, b []byte) []byte {
	key := []byte("\xa7entries")
	at := -1
	for i := 0; i+len(key) < len(b); i++ {
		if string(b[i:i+len(key)]) == string(key) {
			at = i
		}
	}
	if at < 0 {
		return b
	}
	j := at + len(key)
	huge := [][]byte{{0xce, 0x7f, 0xff, 0xff, 0xff}, {0xcf, 0x40, 0, 0, 0, 0, 0, 0, 0}, {0xd3, 0xff, 0xff, 0xff, 0xff, 0xff, 0xff, 0xff, 0xff}}[rng.Intn(3)]
	bad := [][]byte{{0x2a}, {0xc1}, {0xa1, 'x'}}[rng.Intn(3)]
	out := append(append(append([]byte{}, b[:j]...), huge...), bad...)
	if j+2 <= len(b) {
		out = append(out, b[j+2:]...)
	}
	return out
}

// hostile interleaves normal gossip with malformed / hostile datagrams and
// streams presented to the handlers of live nodes.
func hostile(c *gsim.Cluster, sf *schedFile, rng *rand.Rand, n int, emit func(*gsim.Step)) {
	nodes := sf.Nodes
	pick := func(xs []string) string { return xs[rng.Intn(len(xs))] }
	var corpus [][]byte
	keys := []string{"k1", "k2", "k3"}
	for i := 0; i < n; i++ {
		// some real traffic to mutate, and real state to protect
		switch rng.Intn(6) {
		case 0:
			emit(c.Upsert(pick(nodes), pick(keys), pick([]string{"", "x", "y"})))
		case 1:
			emit(c.Delete(pick(nodes), pick(keys)))
		case 2:
			a, b := pick(nodes), pick(nodes)
			emit(c.Round(a, b, 0))
		case 3:
			if slot := pickSlot(c, rng); slot != 0 {
				corpus = append(corpus, c.SlotBytes(slot))
				if c.Slots[slot].T == "dig" {
					emit(c.RecvDigest(slot, false, -1, 0, true))
				} else {
					emit(c.RecvDelta(slot, false))
				}
			}
		}
		for slot := range c.Slots {
			if len(corpus) < 200 {
				corpus = append(corpus, c.SlotBytes(slot))
			}
		}
		if i%200 == 17 {
			emit(c.StalledStream(pick(nodes), pick(nodes)))
		}
		o := pick(nodes)
		var b []byte
		var note string
		switch rng.Intn(9) {
		case 7:
			// a well-formed delta about another node whose versions are more than 2^63 above what everybody holds
			x := pick(nodes)
			d := []gossip.VerifDeltaEntry{{ID: x, Addr: "1.2.3.4:3", Entries: []gossip.Entry{
				{Key: "far1", Value: "v", Version: 1<<63 + 5}, {Key: "far2", Value: "w", Version: 1<<63 + 6},
			}}}
			b, _ = gossip.VerifEncodeDelta("attacker", "6.6.6.6:6", d, 60000)
			note = "forged-delta-far-versions"
		case 8:
			// a structurally valid delta whose node header announces an absurd entry count and whose first
			// entry is not an entry at all
			d := []gossip.VerifDeltaEntry{{ID: pick(nodes), Addr: "1.2.3.4:4", Entries: []gossip.Entry{
				{Key: "k1", Value: "v", Version: 7}, {Key: "k2", Value: "w", Version: 8},
			}}}
			b, _ = gossip.VerifEncodeDelta("attacker", "6.6.6.6:6", d, 60000)
			b, note = badEntryAfterCount(rng, b), "entries-count-bad-entry"
		case 5:
			// identifiers that are not valid UTF-8 (a msgpack string is just bytes), from the sender and about others
			bad := []string{"\xff\xfe\xfd", "\xc3\x28", "ok\x80", strings.Repeat("\xf0", 40)}
			d := []gossip.VerifDeltaEntry{{ID: bad[rng.Intn(len(bad))], Addr: "1.2.3.4:1", Entries: []gossip.Entry{
				{Key: "k\xff", Value: "v\xfe", Version: 1},
			}}}
			b, _ = gossip.VerifEncodeDelta(bad[rng.Intn(len(bad))], "6.6.6.6:6", d, 60000)
			note = "forged-delta-bad-utf8"
		case 6:
			bad := []string{"\xff\xfe\xfd", "\xc3\x28", "ok\x80"}
			dg := []gossip.VerifDigestEntry{{ID: bad[rng.Intn(len(bad))], Addr: "9.9.9.9:9", Version: 3}}
			b, _ = gossip.VerifEncodeDigest(bad[rng.Intn(len(bad))], "6.6.6.6:6", rng.Intn(2) == 0, dg, 60000)
			note = "forged-digest-bad-utf8"
		case 0:
			// a well-formed delta about the receiver itself and about others, with high versions
			d := []gossip.VerifDeltaEntry{{ID: o, Addr: "1.2.3.4:1", Entries: []gossip.Entry{
				{Key: "k1", Value: "forged", Version: 1 << 40},
				{Key: gossip.VerifLeftKey, Version: 1<<40 + 1, Internal: true},
				{Key: gossip.VerifCompactKey, Value: "18446744073709551615", Version: 1<<40 + 2, Internal: true},
			}}, {ID: pick(nodes), Addr: "1.2.3.4:2", Entries: []gossip.Entry{
				{Key: gossip.VerifCompactKey, Value: "not-a-number", Version: 1 << 41, Internal: true},
				{Key: "k2", Value: "after-bad-marker", Version: 1<<41 + 1},
			}}}
			b, _ = gossip.VerifEncodeDelta("attacker", "6.6.6.6:6", d, 60000)
			note = "forged-delta"
		case 1:
			dg := []gossip.VerifDigestEntry{{ID: o, Addr: "9.9.9.9:9", Version: 1 << 50, Left: true},
				{ID: "ghost", Addr: "not-an-address", Version: 3}, {ID: "", Addr: "", Version: 0}}
			b, _ = gossip.VerifEncodeDigest(o, "not an address", rng.Intn(2) == 0, dg, 60000)
			note = "forged-digest"
		default:
			if len(corpus) > 0 {
				b, note = mutate(rng, corpus[rng.Intn(len(corpus))])
			} else {
				b, note = mutate(rng, []byte{1, 0, 0x80})
			}
		}
		if rng.Intn(4) == 0 {
			// the same bytes behind a join / leave stream prefix
			pre := []byte{byte(3 + rng.Intn(2)), 0}
			if rng.Intn(6) == 0 {
				pre = []byte{byte(rng.Intn(256)), byte(rng.Intn(3))}
			}
			payload := b
			if len(payload) > 2 {
				payload = payload[2:]
			}
			emit(c.HostileStream(o, append(pre, payload...), note))
		} else {
			emit(c.HostilePacket(o, b, note))
		}
	}
}
