package main

import (
	"bufio"
	"bytes"
	"context"
	"fmt"
	"io"
	"math/rand"
	"net"
	"net/http"
	"sort"
	"strconv"
	"strings"
	"time"

	"verifharness/internal/psim"
)

var c08methods = []string{"GET", "POST", "PUT", "DELETE", "PATCH", "OPTIONS", "HEAD"}
var c08paths = []string{"/", "/a", "/a/b/", "/a%2Fb", "/sp%20ace", "/%E6%97%A5%E6%9C%AC", "//double//slash", "/a;b=c", "/a/../b", "/with+plus", "/~tilde", "/q%3Fm"}
var c08queries = []string{"", "a=b", "a=b&a=c", "x=%20y&z=%2F", "empty=", "novalue", "u=%E6%97%A5", "a=1;b=2", "plus=a+b"}

const proxyTimeout = 300 * time.Millisecond

// transparent exchanges that ran into the 300 ms proxy timeout and were repeated
var timeoutRetries int

// the upstream's behaviour is chosen by the request itself
func c08behave(w http.ResponseWriter, r *http.Request, st *psim.Stamp) bool {
	switch r.Header.Get("X-Behave") {
	case "close-early":
		if hj, ok := w.(http.Hijacker); ok {
			c, _, err := hj.Hijack()
			if err == nil {
				c.Close()
			}
		}
		return true
	case "close-mid":
		w.Header().Set("Content-Length", "100000")
		w.WriteHeader(200)
		_, _ = w.Write(bytes.Repeat([]byte("x"), 1000))
		if f, ok := w.(http.Flusher); ok {
			f.Flush()
		}
		if hj, ok := w.(http.Hijacker); ok {
			c, _, err := hj.Hijack()
			if err == nil {
				if tc, ok := c.(*net.TCPConn); ok {
					_ = tc.SetLinger(0)
				}
				c.Close()
			}
		}
		return true
	case "close-mid-chunked":
		// no Content-Length: only the way the connection ends tells the client that the body is incomplete
		w.WriteHeader(200)
		_, _ = w.Write(bytes.Repeat([]byte("x"), 1000))
		if f, ok := w.(http.Flusher); ok {
			f.Flush()
		}
		time.Sleep(20 * time.Millisecond)
		if hj, ok := w.(http.Hijacker); ok {
			c, _, err := hj.Hijack()
			if err == nil {
				if tc, ok := c.(*net.TCPConn); ok {
					_ = tc.SetLinger(0)
				}
				c.Close()
			}
		}
		return true
	case "slow":
		time.Sleep(proxyTimeout + 400*time.Millisecond)
		return false
	case "delay":
		// well within the timeout, then an ordinary answer
		time.Sleep(proxyTimeout / 3)
		w.Header().Set("X-Stamp-Endpoint", st.Endpoint)
		w.WriteHeader(201)
		_, _ = w.Write([]byte("done"))
		return true
	}
	// response shape requested by the client
	status := 200
	if v := r.Header.Get("X-Resp-Status"); v != "" {
		status, _ = strconv.Atoi(v)
	}
	size, _ := strconv.Atoi(r.Header.Get("X-Resp-Size"))
	for i := 0; i < 3; i++ {
		if v := r.Header.Get(fmt.Sprintf("X-Resp-Header-%d", i)); v != "" {
			w.Header().Add("X-Produced", v)
		}
	}
	w.Header().Set("X-Stamp-Endpoint", st.Endpoint)
	w.Header().Set("X-Stamp-Upstream", st.Upstream)
	w.Header().Set("X-Seen-Method", st.Method)
	w.Header().Set("X-Seen-Path", st.Path)
	w.Header().Set("X-Seen-Query", st.RawQuery)
	w.Header().Set("X-Seen-Host", st.Host)
	w.Header().Set("X-Seen-Accept-Encoding", strings.Join(r.Header.Values("Accept-Encoding"), "|"))
	w.Header().Set("X-Seen-Bodylen", strconv.Itoa(st.BodyLen))
	w.Header().Set("X-Seen-Bodysum", strconv.Itoa(int(st.BodySum)))
	var hs []string
	for k, vs := range st.Header {
		if strings.HasPrefix(k, "X-Sent-") {
			hs = append(hs, k+"="+strings.Join(vs, "|"))
		}
	}
	sort.Strings(hs)
	w.Header().Set("X-Seen-Headers", strings.Join(hs, ";"))
	body := make([]byte, size)
	for i := range body {
		body[i] = byte('a' + (i*7)%23)
	}
	if enc := r.Header.Get("X-Resp-Encoding"); enc != "" {
		// the upstream labels its body as encoded (the bytes are opaque to a transparent proxy)
		w.Header().Set("Content-Encoding", enc)
	}
	if r.Header.Get("X-Resp-Chunked") == "" {
		w.Header().Set("Content-Length", strconv.Itoa(size))
	}
	w.WriteHeader(status)
	if r.Method != "HEAD" {
		_, _ = w.Write(body)
	}
	return true
}

func runC08(rng *rand.Rand, ncases int, emit emitter) error {
	a, err := psim.StartNode(psim.NodeOpts{ID: "a", ProxyTimeout: proxyTimeout})
	if err != nil {
		return err
	}
	defer a.Stop()
	b, err := psim.StartNode(psim.NodeOpts{ID: "b", ProxyTimeout: proxyTimeout, Join: []string{a.GossipAddr()}})
	if err != nil {
		return err
	}
	defer b.Stop()
	up, err := psim.Listen(context.Background(), b.UpstreamAddr(), "e", "u-b", "", "")
	if err != nil {
		return err
	}
	defer up.Shutdown()
	up.Behave = c08behave
	// endpoint "ea": a local HTTP service behind the piko agent's reverse proxy
	viaAgent, err := psim.ListenViaAgent(context.Background(), b.UpstreamAddr(), "ea", "u-agent", proxyTimeout)
	if err != nil {
		return err
	}
	defer viaAgent.Shutdown()
	viaAgent.Behave = c08behave
	gone, err := psim.Listen(context.Background(), b.UpstreamAddr(), "gone", "u-gone", "", "")
	if err != nil {
		return err
	}
	defer gone.Shutdown()
	// a third node with a much longer proxy timeout hosts endpoint "ec": a node that forwards a request applies
	// its own timeout, whatever the node it forwards to would do
	c, err := psim.StartNode(psim.NodeOpts{ID: "c", ProxyTimeout: 3 * time.Second, Join: []string{a.GossipAddr()}})
	if err != nil {
		return err
	}
	defer c.Stop()
	upc, err := psim.Listen(context.Background(), c.UpstreamAddr(), "ec", "u-c", "", "")
	if err != nil {
		return err
	}
	defer upc.Shutdown()
	upc.Behave = c08behave
	nodes := []*psim.Node{a, b, c}
	if !psim.WaitFor(30*time.Second, func() bool { return psim.Settled(nodes, "") }) {
		return fmt.Errorf("c08: did not settle")
	}
	entry := map[string]*psim.Node{"forwarded": a, "local": b}
	client := &http.Client{Timeout: 5 * time.Second, Transport: &http.Transport{DisableKeepAlives: true, DisableCompression: true},
		CheckRedirect: func(*http.Request, []*http.Request) error { return http.ErrUseLastResponse }}

	// ---- transparency ----------------------------------------------------------
	for i := 0; i < ncases; i++ {
		route := []string{"local", "forwarded"}[i%2]
		method := c08methods[rng.Intn(len(c08methods))]
		path := c08paths[rng.Intn(len(c08paths))]
		q := c08queries[rng.Intn(len(c08queries))]
		mode := []string{"host", "header"}[rng.Intn(2)]
		ep := []string{"e", "ea"}[rng.Intn(2)]
		size := []int{0, 1, 100, 5000, 70000, 1 << 20}[rng.Intn(6)]
		if method == "GET" || method == "HEAD" || method == "OPTIONS" || method == "DELETE" {
			size = 0
		}
		body := make([]byte, size)
		rng.Read(body)
		target := "http://" + entry[route].ProxyAddr() + path
		if q != "" {
			target += "?" + q
		}
		req, err := http.NewRequest(method, target, bytes.NewReader(body))
		if err != nil {
			continue
		}
		host := ep + ".piko.example.com:8000"
		if mode == "header" {
			req.Header.Set("x-piko-endpoint", ep)
			host = "other.example.org"
		}
		req.Host = host
		sent := map[string][]string{}
		for h := rng.Intn(4); h > 0; h-- {
			k := fmt.Sprintf("X-Sent-%d", rng.Intn(3))
			v := []string{"v", "", "a b", "é", "x,y", "\"q\""}[rng.Intn(6)]
			req.Header.Add(k, v)
			sent[k] = append(sent[k], v)
		}
		status := []int{200, 201, 204, 301, 404, 418, 500, 503}[rng.Intn(8)]
		rsize := []int{0, 1, 3000, 200000}[rng.Intn(4)]
		if status == 204 || status == 301 {
			rsize = 0
		}
		req.Header.Set("X-Resp-Status", strconv.Itoa(status))
		req.Header.Set("X-Resp-Size", strconv.Itoa(rsize))
		var produced []string
		for h := 0; h < rng.Intn(3); h++ {
			v := fmt.Sprintf("p%d-%d", h, rng.Intn(100))
			req.Header.Set(fmt.Sprintf("X-Resp-Header-%d", h), v)
			produced = append(produced, v)
		}
		if rng.Intn(3) == 0 && rsize > 0 {
			req.Header.Set("X-Resp-Chunked", "1")
		}
		acceptEnc := []string{"", "", "identity", "gzip", "br, gzip;q=0.5"}[rng.Intn(5)]
		if acceptEnc != "" {
			req.Header.Set("Accept-Encoding", acceptEnc)
		}
		respEnc := ""
		if rng.Intn(4) == 0 && rsize > 0 && method != "HEAD" {
			respEnc = []string{"gzip", "br", "identity"}[rng.Intn(3)]
			req.Header.Set("X-Resp-Encoding", respEnc)
		}
		s := &Step{Op: "Http", Case: "transparent", Route: route, Mode: mode, WantSt: status, Target: ep}
		s.Note = method + " " + path + "?" + q
		t0 := time.Now()
		resp, err := client.Do(req)
		s.TookMs = int(time.Since(t0) / time.Millisecond)
		s.LimitMs = 4000
		for try := 0; try < 2 && err == nil && resp.StatusCode == 504 && status != 504 &&
			time.Since(t0) >= proxyTimeout; try++ {
			// the nodes of this scenario run with a 300 ms proxy timeout (the failure cases need a short one): on
			// a starved machine an exchange of a megabyte may really take longer, and 504 is then the right
			// answer. The exchange is repeated (twice at most) before it is judged.
			_, _ = io.Copy(io.Discard, resp.Body)
			resp.Body.Close()
			timeoutRetries++
			time.Sleep(200 * time.Millisecond)
			req.Body = io.NopCloser(bytes.NewReader(body))
			t0 = time.Now()
			resp, err = client.Do(req)
			s.TookMs = int(time.Since(t0) / time.Millisecond)
		}
		if err != nil {
			s.Status = -1
			s.Fields = append(s.Fields, "transport:"+err.Error())
			emit(s)
			continue
		}
		rb, _ := io.ReadAll(resp.Body)
		resp.Body.Close()
		s.Status = resp.StatusCode
		diff := func(name, got, want string) {
			if got != want {
				s.Fields = append(s.Fields, fmt.Sprintf("%s: got %q want %q", name, got, want))
			}
		}
		diff("req.method", resp.Header.Get("X-Seen-Method"), method)
		diff("req.path", resp.Header.Get("X-Seen-Path"), path)
		diff("req.query", resp.Header.Get("X-Seen-Query"), q)
		diff("req.host", resp.Header.Get("X-Seen-Host"), host)
		diff("req.accept-encoding", resp.Header.Get("X-Seen-Accept-Encoding"), acceptEnc)
		diff("resp.content-encoding", resp.Header.Get("Content-Encoding"), respEnc)
		diff("req.bodylen", resp.Header.Get("X-Seen-Bodylen"), strconv.Itoa(size))
		diff("req.bodysum", resp.Header.Get("X-Seen-Bodysum"), strconv.Itoa(int(psim.Sum(body))))
		var hs []string
		for k, vs := range sent {
			hs = append(hs, k+"="+strings.Join(vs, "|"))
		}
		sort.Strings(hs)
		diff("req.headers", resp.Header.Get("X-Seen-Headers"), strings.Join(hs, ";"))
		diff("resp.produced-headers", strings.Join(resp.Header.Values("X-Produced"), ","), strings.Join(produced, ","))
		wantBody := rsize
		if method == "HEAD" {
			wantBody = 0
		}
		diff("resp.bodylen", strconv.Itoa(len(rb)), strconv.Itoa(wantBody))
		for i, c := range rb {
			if c != byte('a'+(i*7)%23) {
				s.Fields = append(s.Fields, fmt.Sprintf("resp.body differs at %d", i))
				break
			}
		}
		s.ServedE = resp.Header.Get("X-Stamp-Endpoint")
		emit(s)
	}

	// ---- failures: what piko itself answers -------------------------------------
	// the listener of endpoint "gone" announces go-away: it stays connected but refuses new streams
	_ = gone.Ln.Close()
	type fc struct {
		name    string
		ep      string
		hdr     map[string]string
		nohost  bool
		upgrade bool
	}
	fcs := []fc{
		{name: "no-endpoint", nohost: true},
		{name: "absent", ep: "nobody-listens"},
		{name: "goaway", ep: "gone"},
		{name: "close-early", ep: "e", hdr: map[string]string{"X-Behave": "close-early"}},
		{name: "close-mid", ep: "e", hdr: map[string]string{"X-Behave": "close-mid"}},
		{name: "close-mid-chunked", ep: "e", hdr: map[string]string{"X-Behave": "close-mid-chunked"}},
		{name: "slow", ep: "e", hdr: map[string]string{"X-Behave": "slow"}},
		{name: "slow-upgrade", ep: "e", hdr: map[string]string{"X-Behave": "slow", "Upgrade": "websocket", "Connection": "Upgrade"}, upgrade: true},
		// any other protocol upgrade is an ordinary request as far as the timeout goes
		{name: "slow-other-upgrade", ep: "e", hdr: map[string]string{"X-Behave": "slow", "Upgrade": "h2c", "Connection": "Upgrade"}},
	}
	fcs = append(fcs, fc{name: "slow", ep: "ec", hdr: map[string]string{"X-Behave": "slow"}})
	for _, f := range fcs {
		if f.ep == "e" {
			g := f
			g.ep = "ea" // the same failure behind the agent's reverse proxy (which has the same timeout)
			fcs = append(fcs, g)
		}
	}
	for _, route := range []string{"local", "forwarded"} {
		for _, f := range fcs {
			for rep := 0; rep < 2; rep++ {
				req, _ := http.NewRequest("GET", "http://"+entry[route].ProxyAddr()+"/fail", nil)
				if f.nohost {
					req.Host = "localhost"
				} else {
					req.Header.Set("x-piko-endpoint", f.ep)
				}
				for k, v := range f.hdr {
					req.Header.Set(k, v)
				}
				s := &Step{Op: "Http", Case: f.name, Route: route, Target: f.ep}
				t0 := time.Now()
				resp, err := client.Do(req)
				s.TookMs = int(time.Since(t0) / time.Millisecond)
				s.LimitMs = int(proxyTimeout/time.Millisecond) + 1500
				if err != nil {
					s.Status = -1
					s.Note = err.Error()
				} else {
					rb, rerr := io.ReadAll(resp.Body)
					resp.Body.Close()
					s.Status = resp.StatusCode
					s.ServedE = resp.Header.Get("X-Stamp-Endpoint")
					if rerr != nil {
						s.Note = "body: " + rerr.Error()
						s.Fields = append(s.Fields, "body-error")
					} else if f.name == "close-mid" && len(rb) == 100000 {
						s.Fields = append(s.Fields, "complete-body")
					} else if f.name == "close-mid-chunked" {
						// the body ended without an error although the upstream was cut off in the middle of it
						s.Fields = append(s.Fields, "complete-body")
					}
				}
				emit(s)
				if f.name == "goaway" {
					break // the first request removes it; the endpoint is then simply absent
				}
			}
		}
	}
	// a client that half-closes its connection once the request is sent and keeps reading (nc -N, some health
	// checkers) while the upstream is still working: either the upstream's answer or a gateway error, nothing else
	for _, route := range []string{"local", "forwarded"} {
		for _, ep := range []string{"e", "ea"} {
			for rep := 0; rep < 3; rep++ {
				s := &Step{Op: "Http", Case: "half-close", Route: route, Target: ep, WantSt: 201}
				t0 := time.Now()
				s.Status, s.Note = halfCloseRequest(entry[route].ProxyAddr(), ep)
				s.TookMs = int(time.Since(t0) / time.Millisecond)
				s.LimitMs = int(proxyTimeout/time.Millisecond) + 1500
				emit(s)
			}
		}
	}
	return nil
}

func halfCloseRequest(addr, ep string) (int, string) {
	c, err := net.DialTimeout("tcp", addr, 2*time.Second)
	if err != nil {
		return -1, err.Error()
	}
	defer c.Close()
	_ = c.SetDeadline(time.Now().Add(5 * time.Second))
	req := "POST /half HTTP/1.1\r\nHost: " + addr + "\r\nx-piko-endpoint: " + ep +
		"\r\nX-Behave: delay\r\nContent-Length: 5\r\nConnection: close\r\n\r\nhello"
	if _, err := c.Write([]byte(req)); err != nil {
		return -1, err.Error()
	}
	if tc, ok := c.(*net.TCPConn); ok {
		_ = tc.CloseWrite()
	}
	resp, err := http.ReadResponse(bufio.NewReader(c), nil)
	if err != nil {
		return -1, err.Error()
	}
	defer resp.Body.Close()
	_, _ = io.ReadAll(resp.Body)
	return resp.StatusCode, ""
}
