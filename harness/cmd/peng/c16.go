package main

import (
	"context"
	"fmt"
	"math/rand"
	"sort"
	"strconv"
	"strings"
	"time"

	"github.com/andydunstall/piko/pkg/auth"
	"github.com/andydunstall/piko/server/config"
	"github.com/andydunstall/piko/server/upstream"

	"verifharness/internal/psim"
)

type lsn struct {
	e   string
	st  string // connected | goaway | removed | closed
	up  *psim.Upstream
	rel *psim.Relay
}

func ecOf(m map[string]int) []EC {
	out := []EC{}
	var ks []string
	for k := range m {
		ks = append(ks, k)
	}
	sort.Strings(ks)
	for _, k := range ks {
		out = append(out, EC{E: k, C: m[k]})
	}
	return out
}

// observeLife reads the registry, the sessions, the routing entry of the local
// node and the published gossip keys from the node (in-process accessors, so
// it also works after the admin port is gone).
func observeLife(n *psim.Node, s *Step) {
	mgr := n.Server.VerifUpstream().VerifManager().(*upstream.LoadBalancedManager)
	s.Reg = ecOf(mgr.Endpoints())
	s.Sess = n.Server.VerifUpstream().VerifOpenSessions()
	s.Adv = ecOf(n.Server.ClusterState().LocalNode().Endpoints)
	gos := map[string]int{}
	if st, ok := n.Server.VerifGossip().NodeState(n.ID); ok {
		for _, e := range st.Entries {
			if strings.HasPrefix(e.Key, "endpoint:") && !e.Deleted {
				c, err := strconv.Atoi(e.Value)
				if err != nil {
					c = -1
				}
				gos[strings.TrimPrefix(e.Key, "endpoint:")] = c
			}
		}
	}
	s.Gos = ecOf(gos)
}

func expected(ls []*lsn) (map[string]int, int) {
	reg := map[string]int{}
	sess := 0
	for _, l := range ls {
		if l.st == "connected" || l.st == "goaway" {
			reg[l.e]++
		}
		if l.st != "closed" {
			sess++
		}
	}
	return reg, sess
}

func sameEC(a []EC, m map[string]int) bool {
	if len(a) != len(m) {
		return false
	}
	for _, x := range a {
		if m[x.E] != x.C {
			return false
		}
	}
	return true
}

// runC16: one node (plus an idle peer so that shedding is possible), listeners
// behind cuttable relays, a random sequence of ways a connection can end.
func runC16(rng *rand.Rand, depth int, emit emitter) error {
	// threshold 0: the periodic rebalancer is not started; Rebalance() is called by the scenario
	n, err := psim.StartNode(psim.NodeOpts{ID: "a", Rebalance: &config.RebalanceConfig{Threshold: 0, ShedRate: 1, MinConns: 1}})
	if err != nil {
		return err
	}
	peer, err := psim.StartNode(psim.NodeOpts{ID: "b", Join: []string{n.GossipAddr()}})
	if err != nil {
		return err
	}
	defer peer.Stop()
	var ls []*lsn
	connect := func(e string) error {
		rel, err := psim.NewRelay(n.UpstreamAddr())
		if err != nil {
			return err
		}
		u, err := psim.Listen(context.Background(), rel.Addr(), e, fmt.Sprintf("u%d", len(ls)), "", "")
		if err != nil {
			return err
		}
		ls = append(ls, &lsn{e: e, st: "connected", up: u, rel: rel})
		return nil
	}
	lstates := func() []Lstate {
		var out []Lstate
		for _, l := range ls {
			out = append(out, Lstate{E: l.e, St: l.st})
		}
		return out
	}
	observe := func(ev string) {
		wantReg, wantSess := expected(ls)
		s := &Step{Op: "Life", Ev: ev}
		// quiescence: wait (bounded) until what we read stops changing and matches; report what is there
		psim.WaitFor(3*time.Second, func() bool {
			observeLife(n, s)
			return sameEC(s.Reg, wantReg) && s.Sess == wantSess && sameEC(s.Adv, wantReg) && sameEC(s.Gos, wantReg)
		})
		s.Lst = lstates()
		emit(s)
	}
	pickL := func(pred func(*lsn) bool) *lsn {
		var c []*lsn
		for _, l := range ls {
			if pred(l) {
				c = append(c, l)
			}
		}
		if len(c) == 0 {
			return nil
		}
		return c[rng.Intn(len(c))]
	}
	eps := []string{"e1", "e1", "e2"}
	for i := 0; i < 3; i++ {
		if err := connect(eps[i]); err != nil {
			return err
		}
	}
	observe("connect")
	for d := 0; d < depth; d++ {
		switch rng.Intn(7) {
		case 0:
			if len(ls) < 7 {
				if err := connect(eps[rng.Intn(3)]); err != nil {
					return err
				}
				observe("connect")
			}
		case 1: // client closes the connection
			if l := pickL(func(l *lsn) bool { return l.st != "closed" }); l != nil {
				l.up.Shutdown()
				l.st = "closed"
				observe("client-close")
			}
		case 2: // go-away: stop accepting, keep the connection
			if l := pickL(func(l *lsn) bool { return l.st == "connected" }); l != nil {
				_ = l.up.Ln.Close()
				l.st = "goaway"
				observe("go-away")
			}
		case 3: // a request: served, or it meets an upstream that went away and the proxy drops it
			e := eps[rng.Intn(3)]
			rep := psim.Request(n.ProxyAddr(), "header", e, "GET", "/c16", nil, nil)
			if rep.Status == 502 {
				if l := pickL(func(l *lsn) bool { return l.st == "goaway" && l.e == e }); l != nil {
					l.st = "removed"
				}
			}
			observe(fmt.Sprintf("request-%d", rep.Status))
		case 4: // network drop: the client reconnects unless it had stopped accepting
			if l := pickL(func(l *lsn) bool { return l.st != "closed" }); l != nil {
				l.rel.Cut("")
				if l.st != "connected" {
					l.st = "closed"
				}
				time.Sleep(60 * time.Millisecond) // reconnect backoff
				observe("drop")
			}
		case 5: // server-initiated shedding (one session); only when every listener would reconnect
			all := true
			for _, l := range ls {
				if l.st == "goaway" || l.st == "removed" {
					all = false
				}
			}
			if all && pickL(func(l *lsn) bool { return l.st == "connected" }) != nil {
				n.Server.VerifUpstream().Rebalance()
				time.Sleep(60 * time.Millisecond)
				observe("shed")
			}
		case 6: // a request in flight while its upstream's connection is cut
			// (only on endpoints without a listener that went away: the request in flight could
			// otherwise be the one that makes the proxy drop it, which the scenario could not tell
			// from the 502 caused by the cut)
			if l := pickL(func(l *lsn) bool {
				if l.st != "connected" {
					return false
				}
				for _, o := range ls {
					if o.e == l.e && o.st == "goaway" {
						return false
					}
				}
				return true
			}); l != nil {
				l.up.Behave = nil
				go psim.Request(n.ProxyAddr(), "header", l.e, "GET", "/c16-inflight", nil, nil)
				time.Sleep(2 * time.Millisecond)
				l.rel.Cut("")
				time.Sleep(60 * time.Millisecond)
				observe("drop-inflight")
			}
		}
	}
	// finally: either everybody disconnects, or the server shuts down under them
	if rng.Intn(2) == 0 {
		for _, l := range ls {
			if l.st != "closed" {
				l.up.Shutdown()
				l.st = "closed"
			}
		}
		observe("all-closed")
		n.Stop()
	} else {
		n.Stop()
		for _, l := range ls {
			l.st = "closed"
		}
		observe("server-shutdown")
		for _, l := range ls {
			l.up.Shutdown()
		}
	}
	for _, l := range ls {
		l.rel.Close()
	}
	return nil
}

// runExpiry: a connection authenticated with an expiring token is closed by
// the server at that expiry, not before - unless disconnect-on-expiry is off.
func runExpiry(disabled bool, emit emitter) error {
	ac := auth.Config{HMACSecretKey: "secret", DisableDisconnectOnExpiry: disabled}
	n, err := psim.StartNode(psim.NodeOpts{ID: "a", Auth: ac})
	if err != nil {
		return err
	}
	defer n.Stop()
	exp := time.Now().Truncate(time.Second).Add(2 * time.Second)
	tok := psim.HMACToken("secret", exp, nil)
	never := psim.HMACToken("secret", time.Time{}, nil)
	u, err := psim.Listen(context.Background(), n.UpstreamAddr(), "e1", "u-exp", tok, "")
	if err != nil {
		return err
	}
	defer u.Shutdown()
	u2, err := psim.Listen(context.Background(), n.UpstreamAddr(), "e2", "u-noexp", never, "")
	if err != nil {
		return err
	}
	defer u2.Shutdown()
	srv := n.Server.VerifUpstream()
	if !psim.WaitFor(2*time.Second, func() bool { return srv.VerifOpenSessions() == 2 }) {
		return fmt.Errorf("expiry scenario: listeners did not register")
	}
	s := &Step{Op: "Expiry", Disabled: disabled, DeltaMs: 99999}
	deadline := exp.Add(1500 * time.Millisecond)
	for time.Now().Before(deadline) {
		if srv.VerifOpenSessions() < 2 {
			s.DeltaMs = int(time.Since(exp) / time.Millisecond)
			break
		}
		time.Sleep(5 * time.Millisecond)
	}
	observeLife(n, s)
	emit(s)
	return nil
}
