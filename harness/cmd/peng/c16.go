package main

import (
	"context"
	"encoding/json"
	"fmt"
	"math/rand"
	"net"
	"net/http"
	"net/url"
	"sort"
	"strconv"
	"strings"
	"sync"
	"time"

	"github.com/andydunstall/piko/client"
	"github.com/andydunstall/piko/pkg/auth"
	"github.com/andydunstall/piko/server/config"
	"github.com/andydunstall/piko/server/upstream"

	"verifharness/internal/psim"
)

// lsn is what the driver knows about a listener: what it did to it (client-side truth).
type lsn struct {
	e   string
	st  string // "" (never connected) | connected | goaway | closed
	up  *psim.Upstream
	rel *psim.Relay
}

func ecOf(m map[string]int) []EC {
	out := []EC{}
	var ks []string
	for k := range m {
		ks = append(ks, k)
	}
	sort.Strings(ks)
	for _, k := range ks {
		out = append(out, EC{E: k, C: m[k]})
	}
	return out
}

// observeLife reads the registry, the sessions, the routing entry of the local
// node and the published gossip keys from the node (in-process accessors, so
// it also works after the admin port is gone).
func observeLife(n *psim.Node, s *Step) {
	mgr := n.Server.VerifUpstream().VerifManager().(*upstream.LoadBalancedManager)
	s.Reg = ecOf(mgr.Endpoints())
	s.Sess = n.Server.VerifUpstream().VerifOpenSessions()
	s.Adv = ecOf(n.Server.ClusterState().LocalNode().Endpoints)
	gos := map[string]int{}
	if st, ok := n.Server.VerifGossip().NodeState(n.ID); ok {
		for _, e := range st.Entries {
			if strings.HasPrefix(e.Key, "endpoint:") && !e.Deleted {
				c, err := strconv.Atoi(e.Value)
				if err != nil {
					c = -1
				}
				gos[strings.TrimPrefix(e.Key, "endpoint:")] = c
			}
		}
	}
	s.Gos = ecOf(gos)
}

func cntOf(a []EC, e string) int {
	for _, x := range a {
		if x.E == e {
			return x.C
		}
	}
	return 0
}

func sameObs(a, b *Step) bool {
	ja, _ := json.Marshal([]interface{}{a.Reg, a.Sess, a.Adv, a.Gos})
	jb, _ := json.Marshal([]interface{}{b.Reg, b.Sess, b.Adv, b.Gos})
	return string(ja) == string(jb)
}

// lifeSim drives one real node (plus an idle peer so that shedding is
// possible) with listeners behind cuttable relays. Every command is logged
// with what is read from the node once it is quiescent again; the driver keeps
// only what it did itself (which listeners are open, which stopped
// accepting) to know when to stop waiting. The judgement is TraceL.tla's.
type lifeSim struct {
	n, peer  *psim.Node
	ids      []string
	ls       map[string]*lsn
	exp      map[string]bool
	out      []*Step
	slowStop bool
	stopped  bool
	// tunnelStop: a tunnelled connection through the node is open when it stops
	tunnelStop bool
}

func newLifeSim(connE1, connE2, expConn []string, slowStop, tunnelStop bool) (*lifeSim, error) {
	// threshold 0: the periodic rebalancer is not started; Rebalance() is called by the scenario.
	// The upstream port is authenticated: some listeners present a token with an expiry (an hour away).
	n, err := psim.StartNode(psim.NodeOpts{ID: "a", UpstreamAuth: &auth.Config{HMACSecretKey: "secret"}, GracePeriod: 600 * time.Millisecond,
		Rebalance: &config.RebalanceConfig{Threshold: 0, ShedRate: 1, MinConns: 1}})
	if err != nil {
		return nil, err
	}
	peer, err := psim.StartNode(psim.NodeOpts{ID: "b", Join: []string{n.GossipAddr()}})
	if err != nil {
		n.Stop()
		return nil, err
	}
	s := &lifeSim{n: n, peer: peer, ls: map[string]*lsn{}, exp: map[string]bool{}, slowStop: slowStop, tunnelStop: tunnelStop}
	for _, c := range expConn {
		s.exp[c] = true
	}
	for _, c := range connE1 {
		s.ls[c] = &lsn{e: "e1"}
		s.ids = append(s.ids, c)
	}
	for _, c := range connE2 {
		s.ls[c] = &lsn{e: "e2"}
		s.ids = append(s.ids, c)
	}
	sort.Strings(s.ids)
	s.out = append(s.out, &Step{Op: "Reset"})
	return s, nil
}

func (s *lifeSim) close() {
	if !s.stopped {
		s.n.Stop()
	}
	s.peer.Stop()
	for _, l := range s.ls {
		if l.up != nil {
			l.up.Shutdown()
		}
		if l.rel != nil {
			l.rel.Close()
		}
	}
}

// plausible: what is read is compatible with what the driver did (sessions =
// connections it holds open; open ones registered; nothing beyond them).
func (s *lifeSim) plausible(o *Step) bool {
	alive, open := map[string]int{}, map[string]int{}
	na := 0
	for _, l := range s.ls {
		if s.stopped {
			continue
		}
		if l.st == "connected" || l.st == "goaway" {
			alive[l.e]++
			na++
		}
		if l.st == "connected" {
			open[l.e]++
		}
	}
	if o.Sess != na {
		return false
	}
	if s.stopped && s.openConns() != 0 {
		return false
	}
	for _, e := range []string{"e1", "e2"} {
		r := cntOf(o.Reg, e)
		if r < open[e] || r > alive[e] || cntOf(o.Adv, e) != r || cntOf(o.Gos, e) != r {
			return false
		}
	}
	return true
}

// observe waits (bounded) until what is read is plausible and has stopped changing, and logs it.
func (s *lifeSim) observe(st *Step) {
	st.Op = "Life"
	var prev *Step
	deadline := time.Now().Add(8 * time.Second)
	for {
		cur := &Step{}
		observeLife(s.n, cur)
		if prev != nil && sameObs(prev, cur) && (s.plausible(cur) || time.Now().After(deadline)) {
			st.Reg, st.Sess, st.Adv, st.Gos = cur.Reg, cur.Sess, cur.Adv, cur.Gos
			st.Conns = s.openConns()
			break
		}
		prev = cur
		time.Sleep(8 * time.Millisecond)
	}
	b, _ := json.Marshal([]interface{}{st.Ev, st.C, st.E})
	st.Cmd = string(b)
	s.out = append(s.out, st)
}

// openConns: the listeners' network connections to the node (through their relays) that are still open.
func (s *lifeSim) openConns() int {
	t := 0
	for _, l := range s.ls {
		if l.rel != nil {
			t += l.rel.Open()
		}
	}
	return t
}

func (s *lifeSim) accepted() int64 {
	var t int64
	for _, l := range s.ls {
		if l.rel != nil {
			t += l.rel.Accepted.Load()
		}
	}
	return t
}

func (s *lifeSim) listen(c string) error {
	l := s.ls[c]
	if l.up != nil {
		l.up.Shutdown()
	}
	if l.rel != nil {
		l.rel.Close()
	}
	rel, err := psim.NewRelay(s.n.UpstreamAddr())
	if err != nil {
		return err
	}
	var exp time.Time
	if s.exp[c] {
		exp = time.Now().Add(time.Hour)
	}
	u, err := psim.Listen(context.Background(), rel.Addr(), l.e, c, psim.HMACToken("secret", exp, nil), "")
	if err != nil {
		return err
	}
	l.up, l.rel, l.st = u, rel, "connected"
	return nil
}

func (s *lifeSim) request(e string) *Step {
	rep := psim.Request(s.n.ProxyAddr(), "header", e, "GET", "/c16", nil, nil)
	st := &Step{Ev: "request", E: e, Status: rep.Status}
	if rep.Stamp != nil {
		st.Served = rep.Stamp.Upstream
	}
	s.observe(st)
	return st
}

// do executes one command of Lifecycle.tla's MacroNext; commands that do not apply to what the driver did so
// far (a scenario generated from the model whose request was answered by another listener) are skipped.
func (s *lifeSim) do(cmd []interface{}) error {
	name, _ := cmd[0].(string)
	arg := func(i int) string {
		if len(cmd) > i {
			x, _ := cmd[i].(string)
			return x
		}
		return ""
	}
	if s.stopped {
		return nil
	}
	switch name {
	case "DoListen":
		c := arg(1)
		l := s.ls[c]
		if l == nil || l.st == "connected" || l.st == "goaway" {
			return nil
		}
		if err := s.listen(c); err != nil {
			return err
		}
		s.observe(&Step{Ev: "listen", C: c})
	case "DoGoAway": // stop accepting, keep the connection
		c := arg(1)
		l := s.ls[c]
		if l == nil || l.st != "connected" {
			return nil
		}
		_ = l.up.Ln.Close()
		l.st = "goaway"
		time.Sleep(15 * time.Millisecond) // the go-away frame is on its way; nothing observable tells when it arrived
		s.observe(&Step{Ev: "goaway", C: c})
	case "DoClose": // client closes the connection
		c := arg(1)
		l := s.ls[c]
		if l == nil || (l.st != "connected" && l.st != "goaway") {
			return nil
		}
		l.up.Shutdown()
		l.st = "closed"
		s.observe(&Step{Ev: "close", C: c})
	case "DoRequestNone":
		s.request(arg(1))
	case "DoRequest": // repeat until the wanted listener was picked (round robin) or dropped by the proxy
		e, c := arg(1), arg(2)
		l := s.ls[c]
		k := 0
		for _, o := range s.ls {
			if o.e == e && (o.st == "connected" || o.st == "goaway") {
				k++
			}
		}
		for i := 0; i <= k; i++ {
			st := s.request(e)
			if st.Served == c || (st.Status == 502 && l != nil && l.st == "goaway") || st.Status != 200 {
				break
			}
		}
	case "DoDrop": // network drop: the client reconnects unless it had stopped accepting
		c := arg(1)
		l := s.ls[c]
		if l == nil || (l.st != "connected" && l.st != "goaway") {
			return nil
		}
		before := l.rel.Accepted.Load()
		l.rel.Cut("")
		if l.st == "connected" {
			psim.WaitFor(2*time.Second, func() bool { return l.rel.Accepted.Load() > before })
		} else {
			l.st = "closed"
		}
		s.observe(&Step{Ev: "drop", C: c})
	case "DoDropInflight": // a request in flight while its upstream's connection is cut
		c := arg(1)
		l := s.ls[c]
		if l == nil || l.st != "connected" {
			return nil
		}
		for _, o := range s.ls {
			if o.e == l.e && o.st == "goaway" {
				return nil
			}
		}
		var hold sync.WaitGroup
		hold.Add(1)
		l.up.Behave = func(w http.ResponseWriter, r *http.Request, st *psim.Stamp) bool {
			if r.URL.Path == "/c16-inflight" {
				time.Sleep(40 * time.Millisecond)
			}
			return false
		}
		go func() {
			defer hold.Done()
			psim.Request(s.n.ProxyAddr(), "header", l.e, "GET", "/c16-inflight", nil, nil)
		}()
		time.Sleep(10 * time.Millisecond)
		before := l.rel.Accepted.Load()
		l.rel.Cut("")
		psim.WaitFor(2*time.Second, func() bool { return l.rel.Accepted.Load() > before })
		hold.Wait()
		s.observe(&Step{Ev: "drop-inflight", C: c})
	case "DoShed": // server-initiated shedding; only while every listener would reconnect
		any := false
		for _, l := range s.ls {
			if l.st == "goaway" {
				return nil
			}
			if l.st == "connected" {
				any = true
			}
		}
		if !any {
			return nil
		}
		before := s.accepted()
		s.n.Server.VerifUpstream().Rebalance()
		psim.WaitFor(time.Second, func() bool { return s.accepted() > before })
		time.Sleep(80 * time.Millisecond) // the other sessions that were shed reconnect within their first backoff
		s.observe(&Step{Ev: "shed"})
	case "DoStop":
		if s.slowStop {
			// a client that is part-way through sending a request on the upstream port when the node stops:
			// the HTTP server's shutdown uses up the grace period waiting for it
			if c, err := net.DialTimeout("tcp", s.n.UpstreamAddr(), time.Second); err == nil {
				_, _ = c.Write([]byte("GET /piko/v1/upstream/e1 HTTP/1.1\r\nHost: slow-client\r\nUpgrade: websocket\r\n"))
				defer c.Close()
				time.Sleep(20 * time.Millisecond)
			}
		}
		if s.tunnelStop {
			// a tunnelled connection to a connected listener is open (and idle) when the node stops: the stop
			// still closes the listener's session
			var es []string
			for _, id := range s.ids {
				if l := s.ls[id]; l.st == "connected" {
					es = append(es, l.e)
				}
			}
			if len(es) > 0 {
				d := &client.Dialer{URL: &url.URL{Scheme: "http", Host: s.n.ProxyAddr()}}
				ctx, cancel := context.WithTimeout(context.Background(), 2*time.Second)
				if tc, err := d.Dial(ctx, es[0]); err == nil {
					defer tc.Close()
					time.Sleep(20 * time.Millisecond)
				}
				cancel()
			}
		}
		s.n.Stop()
		s.stopped = true
		s.observe(&Step{Ev: "stop"})
	default:
		return fmt.Errorf("unknown c16 command %q", name)
	}
	return nil
}

func (s *lifeSim) randomCmd(rng *rand.Rand) []interface{} {
	c := s.ids[rng.Intn(len(s.ids))]
	switch rng.Intn(9) {
	case 0, 1:
		return []interface{}{"DoListen", c}
	case 2:
		return []interface{}{"DoClose", c}
	case 3:
		return []interface{}{"DoGoAway", c}
	case 4, 5:
		return []interface{}{"DoRequest", s.ls[c].e, c}
	case 6:
		return []interface{}{"DoDrop", c}
	case 7:
		return []interface{}{"DoShed"}
	}
	return []interface{}{"DoDropInflight", c}
}

// runLife: one scenario (a command list from the model's state graph, or a seeded random one).
func runLife(connE1, connE2, expConn []string, cmds [][]interface{}, rng *rand.Rand, depth int, slowStop, tunnelStop bool) ([]*Step, error) {
	s, err := newLifeSim(connE1, connE2, expConn, slowStop, tunnelStop)
	if err != nil {
		return nil, err
	}
	defer s.close()
	for _, cmd := range cmds {
		if err := s.do(cmd); err != nil {
			return s.out, err
		}
	}
	if rng != nil {
		for i := 0; i < 3 && i < len(s.ids); i++ {
			if err := s.do([]interface{}{"DoListen", s.ids[i]}); err != nil {
				return s.out, err
			}
		}
		for d := 0; d < depth; d++ {
			if err := s.do(s.randomCmd(rng)); err != nil {
				return s.out, err
			}
		}
	}
	// finally: either everybody disconnects, or the server shuts down under them
	if !s.stopped {
		if rng == nil || rng.Intn(2) == 0 {
			for _, c := range s.ids {
				if err := s.do([]interface{}{"DoClose", c}); err != nil {
					return s.out, err
				}
			}
		} else if err := s.do([]interface{}{"DoStop"}); err != nil {
			return s.out, err
		}
	}
	return s.out, nil
}

// runC16: the scenarios in parallel (each has its own nodes); traces are written in scenario order.
func runC16(sf *sched, seed int64, emit emitter) error {
	type job struct {
		cmds [][]interface{}
		rng  *rand.Rand
	}
	var jobs []job
	for _, b := range sf.Behaviours {
		jobs = append(jobs, job{cmds: b})
	}
	for i := 0; i < sf.Walks; i++ {
		jobs = append(jobs, job{rng: rand.New(rand.NewSource(seed*7919 + int64(i)))})
	}
	par := sf.Par
	if par <= 0 {
		par = 6
	}
	results := make([][]*Step, len(jobs))
	errs := make([]error, len(jobs))
	var wg sync.WaitGroup
	sem := make(chan struct{}, par)
	for i := range jobs {
		wg.Add(1)
		go func(i int) {
			defer wg.Done()
			sem <- struct{}{}
			defer func() { <-sem }()
			depth := 0
			if jobs[i].rng != nil {
				depth = 10 + jobs[i].rng.Intn(10)
			}
			results[i], errs[i] = runLife(sf.ConnE1, sf.ConnE2, sf.ExpConn, jobs[i].cmds, jobs[i].rng, depth, i%3 == 0, i%3 == 1)
		}(i)
	}
	wg.Wait()
	for i := range jobs {
		for _, st := range results[i] {
			emit(st)
		}
		if errs[i] != nil {
			return errs[i]
		}
	}
	return nil
}

// runBacklog: the path to a connected listener is congested to a standstill for a while (the relay stops
// reading, uploads fill the buffers): a request routed to it in that state cannot even open a stream (the session's
// write times out after 10 s) and is refused. That is a failed dial, not the end of the connection: when the
// path flows again the listener must still be registered, advertised and served. Status = the request after the
// congestion; DeltaMs / Served = duration and status of the probe during it.
func runBacklog(emit emitter) error {
	n, err := psim.StartNode(psim.NodeOpts{ID: "a", ProxyTimeout: 20 * time.Second})
	if err != nil {
		return err
	}
	defer n.Stop()
	rel, err := psim.NewRelay(n.UpstreamAddr())
	if err != nil {
		return err
	}
	defer rel.Close()
	u, err := psim.Listen(context.Background(), rel.Addr(), "e1", "u-congested", "", "")
	if err != nil {
		return err
	}
	defer u.Shutdown()
	srv := n.Server.VerifUpstream()
	if !psim.WaitFor(5*time.Second, func() bool { return srv.VerifOpenSessions() == 1 }) {
		return fmt.Errorf("backlog scenario: the listener did not register")
	}
	rel.Freeze(true)
	body := make([]byte, 512*1024)
	var wg sync.WaitGroup
	for i := 0; i < 80; i++ {
		wg.Add(1)
		go func() {
			defer wg.Done()
			psim.Request(n.ProxyAddr(), "header", "e1", "POST", "/c16-upload", nil, body)
		}()
	}
	time.Sleep(1500 * time.Millisecond)
	t0 := time.Now()
	// (a patient client: the session's write timeout is 10 s)
	pc := &http.Client{Timeout: 18 * time.Second, Transport: &http.Transport{DisableKeepAlives: true}}
	preq, _ := http.NewRequest("GET", "http://"+n.ProxyAddr()+"/c16-probe", nil)
	preq.Header.Set("x-piko-endpoint", "e1")
	pst, pnote := -1, ""
	if presp, err := pc.Do(preq); err == nil {
		pst = presp.StatusCode
		presp.Body.Close()
	} else {
		pnote = "probe: " + err.Error()
	}
	s := &Step{Op: "Backlog", DeltaMs: int(time.Since(t0) / time.Millisecond), Served: strconv.Itoa(pst), Note: pnote}
	rel.Freeze(false)
	wg.Wait()
	time.Sleep(300 * time.Millisecond)
	after := psim.Request(n.ProxyAddr(), "header", "e1", "GET", "/c16-after", nil, nil)
	s.Status = after.Status
	observeLife(n, s)
	emit(s)
	return nil
}

// runExpiry: a connection authenticated with an expiring token is closed by
// the server at that expiry, not before - unless disconnect-on-expiry is off.
// With tenant: the connection is authenticated under a tenant of the upstream port's tenant table.
// runStall: two listeners on one endpoint, one of them behind a relay that turns into a black hole (no FIN, no
// RST, nothing carried any more). The server must notice through the session's keep-alive (30 s interval, 10 s
// write timeout), end the handler and release registration and session; the other listener is unaffected.
// DeltaMs = time from the stall to the release (99999 = never within the bound).
func runStall(emit emitter) error {
	n, err := psim.StartNode(psim.NodeOpts{ID: "a"})
	if err != nil {
		return err
	}
	defer n.Stop()
	rel, err := psim.NewRelay(n.UpstreamAddr())
	if err != nil {
		return err
	}
	defer rel.Close()
	u, err := psim.Listen(context.Background(), rel.Addr(), "e1", "u-stalled", "", "")
	if err != nil {
		return err
	}
	defer u.Shutdown()
	u2, err := psim.Listen(context.Background(), n.UpstreamAddr(), "e1", "u-direct", "", "")
	if err != nil {
		return err
	}
	defer u2.Shutdown()
	srv := n.Server.VerifUpstream()
	if !psim.WaitFor(5*time.Second, func() bool { return srv.VerifOpenSessions() == 2 }) {
		return fmt.Errorf("stall scenario: listeners did not register")
	}
	rel.Stall()
	t0 := time.Now()
	s := &Step{Op: "Stall", DeltaMs: 99999}
	for time.Since(t0) < 50*time.Second {
		if srv.VerifOpenSessions() < 2 {
			s.DeltaMs = int(time.Since(t0) / time.Millisecond)
			break
		}
		time.Sleep(20 * time.Millisecond)
	}
	time.Sleep(200 * time.Millisecond) // the deferred clean-up of the handler
	observeLife(n, s)
	emit(s)
	rel.Close() // so that closing the black-holed listener does not wait for anything
	return nil
}

func runExpiry(disabled bool, tenant string, emit emitter) error {
	ac := auth.Config{HMACSecretKey: "secret", DisableDisconnectOnExpiry: disabled}
	opts := psim.NodeOpts{ID: "a", Auth: ac}
	secret := "secret"
	if tenant != "" {
		secret = "tenant-secret"
		opts.Tenants = []config.TenantConfig{{ID: tenant, Auth: auth.Config{HMACSecretKey: secret, DisableDisconnectOnExpiry: disabled}}}
	}
	n, err := psim.StartNode(opts)
	if err != nil {
		return err
	}
	defer n.Stop()
	exp := time.Now().Truncate(time.Second).Add(2 * time.Second)
	tok := psim.HMACToken(secret, exp, nil)
	never := psim.HMACToken(secret, time.Time{}, nil)
	u, err := psim.Listen(context.Background(), n.UpstreamAddr(), "e1", "u-exp", tok, tenant)
	if err != nil {
		return err
	}
	defer u.Shutdown()
	u2, err := psim.Listen(context.Background(), n.UpstreamAddr(), "e2", "u-noexp", never, tenant)
	if err != nil {
		return err
	}
	defer u2.Shutdown()
	srv := n.Server.VerifUpstream()
	if !psim.WaitFor(2*time.Second, func() bool { return srv.VerifOpenSessions() == 2 }) {
		return fmt.Errorf("expiry scenario: listeners did not register")
	}
	s := &Step{Op: "Expiry", Disabled: disabled, DeltaMs: 99999}
	deadline := exp.Add(2500 * time.Millisecond)
	for time.Now().Before(deadline) {
		if srv.VerifOpenSessions() < 2 {
			s.DeltaMs = int(time.Since(exp) / time.Millisecond)
			break
		}
		time.Sleep(5 * time.Millisecond)
	}
	observeLife(n, s)
	emit(s)
	return nil
}
