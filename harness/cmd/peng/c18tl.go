package main

import (
	"encoding/json"
	"net"
	"sort"
	"sync"
	"time"

	"verifharness/internal/psim"
)

// timeline records, while a node is being lost, what the driver does and what
// every node's admin port shows whenever that changes. One goroutine polls
// the nodes one after the other, so the observations are totally ordered; the
// driver's own events are appended under the same mutex before the signal is
// sent (lose, kill) or after the exit was seen (exited).
type timeline struct {
	mu     sync.Mutex
	t0     time.Time
	events []TLE
	last   map[string]string
	procs  []*psim.Proc
	victim string
	lost   bool
	proxyClosed bool
	stop   chan struct{}
	done   chan struct{}
}

func newTimeline(procs []*psim.Proc) *timeline {
	return &timeline{t0: time.Now(), last: map[string]string{}, procs: procs, stop: make(chan struct{}), done: make(chan struct{})}
}

func (t *timeline) mark(k string) {
	t.mu.Lock()
	if k == "lose" {
		t.lost = true
	}
	t.events = append(t.events, TLE{K: k, Views: []TLView{}, Reg: []string{}, Ms: int(time.Since(t.t0) / time.Millisecond)})
	t.mu.Unlock()
}

func (t *timeline) observe(p *psim.Proc) {
	if p.Exited() {
		return
	}
	// (a node that is shutting down drops its peers from its own table: its own view is not part of the
	// property and is not followed once it was told to go)
	t.mu.Lock()
	skipView := t.lost && p.ID == t.victim
	t.mu.Unlock()
	if cn, err := p.ClusterNodes(); err == nil && !skipView {
		ev := TLE{K: "view", O: p.ID, Views: []TLView{}, Reg: []string{}}
		for _, x := range cn {
			if x.ID == p.ID {
				continue
			}
			v := TLView{N: x.ID, St: x.Status, Eps: []string{}}
			for e, c := range x.Endpoints {
				if c > 0 {
					v.Eps = append(v.Eps, e)
				}
			}
			sort.Strings(v.Eps)
			ev.Views = append(ev.Views, v)
		}
		sort.Slice(ev.Views, func(i, j int) bool { return ev.Views[i].N < ev.Views[j].N })
		t.add("view/"+p.ID, ev)
	}
	// the victim's proxy port: once it refuses connections, the node's registry is read again
	t.mu.Lock()
	watchProxy := t.lost && p.ID == t.victim && !t.proxyClosed
	after := ""
	if t.proxyClosed && p.ID == t.victim {
		after = "proxy-closed"
	}
	t.mu.Unlock()
	if watchProxy {
		c, err := net.DialTimeout("tcp", p.Proxy, 200*time.Millisecond)
		if err == nil {
			c.Close()
		} else if !p.Exited() {
			t.mu.Lock()
			t.proxyClosed = true
			t.last["reg/"+p.ID] = "" // log the next registry observation whatever it shows
			t.mu.Unlock()
			t.add("proxy/"+p.ID, TLE{K: "proxy", O: p.ID, Views: []TLView{}, Reg: []string{}})
			after = "proxy-closed"
		}
	}
	if m, err := p.UpstreamEndpoints(); err == nil {
		ev := TLE{K: "reg", O: p.ID, Views: []TLView{}, Reg: []string{}, After: after}
		for e, c := range m {
			if c > 0 {
				ev.Reg = append(ev.Reg, e)
			}
		}
		sort.Strings(ev.Reg)
		t.add("reg/"+p.ID, ev)
	}
}

func (t *timeline) add(key string, ev TLE) {
	b, _ := json.Marshal(ev)
	t.mu.Lock()
	defer t.mu.Unlock()
	if t.last[key] == string(b) {
		return
	}
	t.last[key] = string(b)
	ev.Ms = int(time.Since(t.t0) / time.Millisecond)
	t.events = append(t.events, ev)
}

// snapshot: one observation of every node, before anything happens.
func (t *timeline) snapshot() {
	for _, p := range t.procs {
		t.observe(p)
	}
}

func (t *timeline) run() {
	defer close(t.done)
	for {
		select {
		case <-t.stop:
			return
		default:
		}
		for _, p := range t.procs {
			t.observe(p)
		}
		time.Sleep(2 * time.Millisecond)
	}
}

func (t *timeline) finish() []TLE {
	close(t.stop)
	<-t.done
	t.mu.Lock()
	defer t.mu.Unlock()
	return t.events
}
