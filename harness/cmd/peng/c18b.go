package main

import (
	"context"
	"fmt"
	"time"

	"verifharness/internal/psim"
)

// runStopOrder: a graceful stop of an in-process node with many upstream
// connections, observed from a peer: what the peer holds about the stopped
// node once it has seen it leave. Shutdown() cancels the upstream handlers'
// context and goes on to close the proxy and leave the cluster without
// waiting for the handlers' deferred deregistration; Cluster.tla models the
// deregistration as separate steps (Dereg) for that reason.
func runStopOrder(listeners int, emit emitter) error {
	a, err := psim.StartNode(psim.NodeOpts{ID: "a"})
	if err != nil {
		return err
	}
	b, err := psim.StartNode(psim.NodeOpts{ID: "b", Join: []string{a.GossipAddr()}})
	if err != nil {
		a.Stop()
		return err
	}
	defer b.Stop()
	var ups []*psim.Upstream
	defer func() {
		for _, u := range ups {
			u.Shutdown()
		}
	}()
	for i := 0; i < listeners; i++ {
		u, err := psim.Listen(context.Background(), a.UpstreamAddr(), fmt.Sprintf("e%d", i), fmt.Sprintf("u%d", i), "", "")
		if err != nil {
			a.Stop()
			return err
		}
		ups = append(ups, u)
	}
	seen := func() (string, int) {
		for _, n := range b.Server.ClusterState().Nodes() {
			if n.ID == "a" {
				return string(n.Status), len(n.Endpoints)
			}
		}
		return "absent", 0
	}
	if !psim.WaitFor(10*time.Second, func() bool { _, k := seen(); return k == listeners }) {
		a.Stop()
		return fmt.Errorf("stop-order scenario: the peer did not learn the %d endpoints", listeners)
	}
	took := a.Stop()
	psim.WaitFor(2*time.Second, func() bool { st, _ := seen(); return st == "left" })
	time.Sleep(100 * time.Millisecond)
	st, k := seen()
	s := &Step{Op: "StopOrder", Victim: "a", Sess: listeners, StopMs: int(took / time.Millisecond), Note: st, Status: k}
	emit(s)
	return nil
}
