package main

import (
	"context"
	"encoding/json"
	"fmt"
	"net/http"
	"os"
	"strings"
	"sync"
	"time"

	"verifharness/internal/psim"
)

// runLoss: a three-node cluster of real piko processes behind a TCP load
// balancer on the upstream port; one node (the victim) is lost, gracefully
// (SIGTERM) or by SIGKILL, at a given phase. Everything is observed through
// the survivors' proxy and admin ports and the upstream listeners.
func runLoss(bin, victim, phase string, kill bool, logDir string, emit emitter) error {
	grace := 3 * time.Second
	ids := []string{"a", "b", "c"}
	procs := map[string]*psim.Proc{}
	var join []string
	defer func() {
		for _, p := range procs {
			p.Kill()
		}
	}()
	for _, id := range ids {
		p, err := psim.StartProc(bin, id, join, grace, fmt.Sprintf("%s/%s-%s-%v-%s.log", logDir, victim, phase, kill, id))
		if err != nil {
			return err
		}
		procs[id] = p
		join = append(join, p.Gossip)
	}
	var survivors []*psim.Proc
	for _, id := range ids {
		if id != victim {
			survivors = append(survivors, procs[id])
		}
	}
	v := procs[victim]
	// every node knows every node
	if !psim.WaitFor(10*time.Second, func() bool {
		for _, p := range procs {
			cn, err := p.ClusterNodes()
			if err != nil || len(cn) != 3 {
				return false
			}
		}
		return true
	}) {
		return fmt.Errorf("cluster did not form")
	}
	var backends []string
	for _, id := range ids {
		backends = append(backends, procs[id].Up)
	}
	lb, err := psim.NewRelay(backends...)
	if err != nil {
		return err
	}
	defer lb.Close()
	// the load balancer keeps the lost node in rotation: a redial that is given to it is accepted and closed
	lb.NoFailover(true)
	s := &Step{Op: "Loss", Nodes: ids, Victim: victim, Kill: kill, Phase: phase, GraceMs: int(grace / time.Millisecond)}
	check := func(name string, ok bool, info string) {
		s.Checks = append(s.Checks, Check{Name: name, OK: ok, Info: info})
	}
	var ups []*psim.Upstream
	endpoints := []string{"e1", "e2"}
	if phase != "idle" {
		// the listeners first connect to the victim (the other backends are enabled afterwards)
		for _, id := range ids {
			lb.Disable(procs[id].Up, id != victim)
		}
		for i, e := range endpoints {
			// the first listener's token expires in an hour, the second's never
			var exp time.Time
			if i == 0 {
				exp = time.Now().Add(time.Hour)
			}
			u, err := psim.Listen(context.Background(), lb.Addr(), e, fmt.Sprintf("u%d", i), psim.HMACToken(psim.ProcSecret, exp, nil), "")
			if err != nil {
				return err
			}
			ups = append(ups, u)
		}
		for _, id := range ids {
			lb.Disable(procs[id].Up, false)
		}
		defer func() {
			for _, u := range ups {
				u.Shutdown()
			}
		}()
		// routing settled: every survivor serves both endpoints (through the victim)
		if !psim.WaitFor(10*time.Second, func() bool {
			for _, p := range survivors {
				for _, e := range endpoints {
					r := psim.Request(p.Proxy, "header", e, "GET", "/pre", nil, nil)
					if r.Status != 200 || r.Stamp == nil || r.Stamp.Endpoint != e {
						return false
					}
				}
			}
			return true
		}) {
			return fmt.Errorf("routing did not settle before the loss")
		}
	}
	// requests in flight through a survivor to an upstream connected to the victim
	var wg sync.WaitGroup
	var wrong []string
	var mu sync.Mutex
	if phase == "inflight" || phase == "streaming" {
		for _, u := range ups {
			u.Behave = func(w http.ResponseWriter, r *http.Request, st *psim.Stamp) bool {
				if strings.HasPrefix(r.URL.Path, "/slow") && phase == "streaming" {
					// the upstream keeps sending towards the node while it is lost (its end of the
					// connection then sees a reset rather than an orderly close)
					w.Header().Set("X-Stamp-Endpoint", st.Endpoint)
					w.WriteHeader(200)
					chunk := make([]byte, 32*1024)
					end := time.Now().Add(400 * time.Millisecond)
					for time.Now().Before(end) {
						if _, err := w.Write(chunk); err != nil {
							break
						}
						if f, ok := w.(http.Flusher); ok {
							f.Flush()
						}
					}
					return true
				}
				if strings.HasPrefix(r.URL.Path, "/slow") {
					time.Sleep(300 * time.Millisecond)
				}
				return false
			}
		}
		for _, p := range survivors {
			for _, e := range endpoints {
				p, e := p, e
				wg.Add(1)
				go func() {
					defer wg.Done()
					r := psim.Request(p.Proxy, "header", e, "GET", "/slow", nil, nil)
					if r.Stamp != nil && r.Stamp.Endpoint != e {
						mu.Lock()
						wrong = append(wrong, fmt.Sprintf("%s got %s", e, r.Stamp.Endpoint))
						mu.Unlock()
					}
				}()
			}
		}
		time.Sleep(50 * time.Millisecond)
	}
	// ---- the loss -------------------------------------------------------------
	var all []*psim.Proc
	for _, id := range ids {
		all = append(all, procs[id])
	}
	tl := newTimeline(all)
	tl.victim = victim
	tl.snapshot()
	go tl.run()
	t0 := time.Now()
	switch {
	case kill:
		tl.mark("lose")
		tl.mark("kill")
		v.Kill()
		if v.WaitExit(2 * time.Second) {
			tl.mark("exited")
		}
	case phase == "midshutdown":
		tl.mark("lose")
		v.Term()
		time.Sleep(15 * time.Millisecond)
		tl.mark("kill")
		v.Kill()
		if v.WaitExit(2 * time.Second) {
			tl.mark("exited")
		}
		s.Kill = true // from the survivors' point of view the node may or may not have announced its departure
	default:
		tl.mark("lose")
		v.Term()
		exited := v.WaitExit(grace + 2*time.Second)
		if exited {
			tl.mark("exited")
		}
		s.StopMs = int(time.Since(t0) / time.Millisecond)
		check("terminates_within_grace", exited && time.Since(t0) <= grace+500*time.Millisecond, fmt.Sprintf("%d ms", s.StopMs))
		// the nodes it notified stop routing to it at once: with two survivors both are notified
		leftAtOnce := psim.WaitFor(300*time.Millisecond, func() bool {
			for _, p := range survivors {
				cn, err := p.ClusterNodes()
				if err != nil {
					return false
				}
				for _, x := range cn {
					if x.ID == victim && x.Status != "left" {
						return false
					}
				}
			}
			return true
		})
		check("left_at_once", leftAtOnce, "")
		// it stopped advertising its upstreams before leaving
		noAdv := true
		for _, p := range survivors {
			cn, _ := p.ClusterNodes()
			for _, x := range cn {
				if x.ID == victim && len(x.Endpoints) != 0 {
					noAdv = false
				}
			}
		}
		check("stopped_advertising", noAdv, "")
	}
	wg.Wait()
	// ---- recovery ---------------------------------------------------------------
	if phase != "idle" {
		// the listeners reconnect to a surviving node
		reconnected := psim.WaitFor(8*time.Second, func() bool {
			total := 0
			for _, p := range survivors {
				m, err := p.UpstreamEndpoints()
				if err != nil {
					return false
				}
				for _, e := range endpoints {
					total += m[e]
				}
			}
			return total == len(endpoints)
		})
		check("listeners_reconnected", reconnected, fmt.Sprintf("after %d ms", int(time.Since(t0)/time.Millisecond)))
		// once routing information settles, requests succeed again from every surviving node
		served := psim.WaitFor(15*time.Second, func() bool {
			for _, p := range survivors {
				for _, e := range endpoints {
					r := psim.Request(p.Proxy, "header", e, "GET", "/post", nil, nil)
					if r.Stamp != nil && r.Stamp.Endpoint != e {
						mu.Lock()
						wrong = append(wrong, fmt.Sprintf("%s got %s", e, r.Stamp.Endpoint))
						mu.Unlock()
					}
					if r.Status != 200 || r.Stamp == nil {
						return false
					}
				}
			}
			return true
		})
		check("served_again_from_every_survivor", served, fmt.Sprintf("after %d ms", int(time.Since(t0)/time.Millisecond)))
	}
	// the survivors stop routing to the lost node (left or unreachable), whichever way it went
	excluded := psim.WaitFor(15*time.Second, func() bool {
		for _, p := range survivors {
			cn, err := p.ClusterNodes()
			if err != nil {
				return false
			}
			for _, x := range cn {
				if x.ID == victim && x.Status == "active" {
					return false
				}
			}
		}
		return true
	})
	check("victim_excluded_from_routing", excluded, "")
	check("never_wrong_endpoint", len(wrong) == 0, strings.Join(wrong, ";"))
	for _, p := range survivors {
		if p.Exited() {
			check("survivor_alive", false, p.ID)
		}
	}
	s.Tl = tl.finish()
	cmd, _ := json.Marshal([]interface{}{"Loss", victim, phase, kill})
	s.Cmd = string(cmd)
	emit(&Step{Op: "Reset"})
	emit(s)
	_ = os.Remove("")
	return nil
}
