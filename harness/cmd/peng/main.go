// peng runs scenarios on real in-process piko clusters (engine P) and writes
// one ndjson line per observation for validation against spec/TraceP.tla.
//
//	mode "c06": every combination of real upstream placement, per-node beliefs,
//	            entry node and externally supplied forward header (Proxy.tla)
//	mode "c01": placements of upstreams of several endpoints, every entry node
//	            and addressing mode, plus churn
package main

import (
	"bufio"
	"bytes"
	"context"
	"encoding/json"
	"flag"
	"fmt"
	"io"
	"math/rand"
	"net"
	"net/http"
	"os"
	"sort"
	"strings"
	"sync"
	"time"

	"github.com/gorilla/websocket"

	pikows "github.com/andydunstall/piko/pkg/websocket"

	"verifharness/internal/psim"
)

type Belief struct {
	N string   `json:"n"`
	B []string `json:"b"`
}

type Run struct {
	N string `json:"n"`
	C int    `json:"c"`
}

type Placed struct {
	U string `json:"u"`
	E string `json:"e"`
	N string `json:"n"`
}

type Step struct {
	Op       string   `json:"op"` // Reset | Route | Place | Churn
	Nodes    []string `json:"nodes"`
	Has      []string `json:"has"`
	Gone     []string `json:"gone"`  // nodes whose only upstream had sent go-away before the request
	Rejoin   []string `json:"rejoin"` // nodes whose upstream is the reconnection of a listener whose first upstream went away
	Dereg    []string `json:"dereg"` // those of them whose registry does not list the endpoint afterwards
	Bel      []Belief `json:"bel"`
	Entry    string   `json:"entry"`
	Ext      string   `json:"ext"`   // what the client says about the forward marker: none | forged | false | hide
	Route    string   `json:"route"` // http | tcp
	Mode     string   `json:"mode"`  // host | header | tcp
	Target   string   `json:"target"`
	Placed   []Placed `json:"placed"`
	Status   int      `json:"status"`
	ServedBy string   `json:"servedBy"` // node whose upstream served the request
	ServedE  string   `json:"servedE"`  // endpoint stamped by the serving upstream
	ServedU  string   `json:"servedU"`  // upstream id stamped
	Runs     []Run    `json:"runs"`
	Settled  bool     `json:"settled"`
	Cmd      string   `json:"cmd"`
	Note     string   `json:"note"`
	// C16 (op Life / Expiry)
	Ev       string   `json:"ev"`     // the command that preceded this observation
	C        string   `json:"c"`      // its connection (listener identity)
	E        string   `json:"e"`      // its endpoint (request)
	Served   string   `json:"served"` // request: identity stamped by the listener that answered
	Lst      []Lstate `json:"lst"`    // unused
	Reg      []EC     `json:"reg"`    // Manager.Endpoints()
	Sess     int      `json:"sess"`
	Conns    int      `json:"conns"` // c16: network connections of the listeners to the node that are still open
	Adv      []EC     `json:"adv"` // cluster.State local endpoints
	Gos      []EC     `json:"gos"` // live endpoint:* keys of the gossip state
	Disabled bool     `json:"disabled"`
	DeltaMs  int      `json:"deltaMs"` // Expiry: close time minus token expiry (ms); 99999 = still open
	// C18 (op Loss)
	Victim  string  `json:"victim"`
	Kill    bool    `json:"kill"`
	Phase   string  `json:"phase"`
	StopMs  int     `json:"stopMs"`
	GraceMs int     `json:"graceMs"`
	Checks  []Check `json:"checks"`
	Tl      []TLE   `json:"tl"` // the time line recorded while the node was lost
	// C08 (op Http)
	Case    string   `json:"case"`
	Fields  []string `json:"fields"` // names of request/response fields that differ
	WantSt  int      `json:"wantSt"`
	TookMs  int      `json:"tookMs"`
	LimitMs int      `json:"limitMs"`
}

type Lstate struct {
	E  string `json:"e"`
	St string `json:"st"` // connected | goaway | removed | closed
}

type EC struct {
	E string `json:"e"`
	C int    `json:"c"`
}

// TLE is one event of a loss scenario's time line: what the driver did (lose, kill, exited) or what a
// node's admin port showed when it changed (view: its routing table; reg: its own upstream registry).
type TLE struct {
	K     string   `json:"k"`
	O     string   `json:"o"`
	Views []TLView `json:"views"`
	Reg   []string `json:"reg"`
	After string   `json:"after"` // reg: "proxy-closed" if read after the node's proxy port was seen closed
	Ms    int      `json:"ms"`
}

type TLView struct {
	N   string   `json:"n"`
	St  string   `json:"st"`
	Eps []string `json:"eps"`
}

type Check struct {
	Name string `json:"name"`
	OK   bool   `json:"ok"`
	Info string `json:"info"`
}

type sched struct {
	Mode       string            `json:"mode"`
	N          int               `json:"n"`
	Sample     int               `json:"sample"`     // 0 = all cases
	GoneSample int               `json:"goneSample"` // c06: > 0 = all cases without a go-away upstream and this many with one
	Churn      int               `json:"churn"`
	PikoBin    string            `json:"pikoBin"`
	LogDir     string            `json:"logDir"`
	Cases      [][]interface{}   `json:"cases"` // c18: [victim, phase, kill]
	Behaviours [][][]interface{} `json:"behaviours"`
	ConnE1     []string          `json:"connE1"` // c16: listener identities per endpoint
	ConnE2     []string          `json:"connE2"`
	ExpConn    []string          `json:"expConn"`
	Walks      int               `json:"walks"`
	Par        int               `json:"par"`
	Expiry     bool              `json:"expiry"`
}

var names = []string{"a", "b", "c", "d"}

type cluster struct {
	nodes []*psim.Node
	byID  map[string]*psim.Node
}

func startCluster(n int) (*cluster, error) {
	c := &cluster{byID: map[string]*psim.Node{}}
	var join []string
	for i := 0; i < n; i++ {
		nd, err := psim.StartNode(psim.NodeOpts{ID: names[i], Join: join})
		if err != nil {
			return nil, err
		}
		c.nodes = append(c.nodes, nd)
		c.byID[nd.ID] = nd
		join = append(join, nd.GossipAddr())
	}
	ok := psim.WaitFor(30*time.Second, func() bool { return psim.Settled(c.nodes, "") })
	if !ok {
		return nil, fmt.Errorf("cluster of %d did not settle", n)
	}
	return c, nil
}

func (c *cluster) stop() {
	for _, n := range c.nodes {
		n.Stop()
	}
}

func (c *cluster) ids() []string {
	var out []string
	for _, n := range c.nodes {
		out = append(out, n.ID)
	}
	return out
}

// handler invocations per node: piko_proxy_requests_total summed over labels
func (c *cluster) counts() map[string]int {
	m := map[string]int{}
	for _, n := range c.nodes {
		m[n.ID] = int(n.Metric("", "piko_proxy_requests_total"))
	}
	return m
}

func (c *cluster) quiesce() map[string]int {
	var last map[string]int
	psim.WaitFor(2*time.Second, func() bool {
		for _, n := range c.nodes {
			if n.Metric("", "piko_proxy_requests_in_flight") != 0 {
				return false
			}
		}
		cur := c.counts()
		same := last != nil
		for k, v := range cur {
			if last == nil || last[k] != v {
				same = false
			}
		}
		last = cur
		return same
	})
	return last
}

// tcpRequest opens a tunnelled TCP connection (the WebSocket TCP route) and
// speaks HTTP over it to the stamping upstream.
// hideConn rewrites the websocket handshake so that the Connection header also names the forward marker
// (the dialer refuses a second Connection header).
type hideConn struct {
	net.Conn
	done bool
}

func (h *hideConn) Write(b []byte) (int, error) {
	if !h.done {
		h.done = true
		nb := bytes.Replace(b, []byte("Connection: Upgrade\r\n"), []byte("Connection: Upgrade, x-piko-forward\r\n"), 1)
		if _, err := h.Conn.Write(nb); err != nil {
			return 0, err
		}
		return len(b), nil
	}
	return h.Conn.Write(b)
}

func tcpRequest(proxyAddr, endpoint string, ext string) psim.Reply {
	return tcpRequestHdr(proxyAddr, endpoint, ext, nil)
}

// tcpRequestHdr: extra handshake headers (Host, x-piko-endpoint) that name another endpoint than the path.
func tcpRequestHdr(proxyAddr, endpoint string, ext string, extra map[string]string) psim.Reply {
	hdr := http.Header{}
	for k, v := range extra {
		hdr.Set(k, v)
	}
	d := websocket.Dialer{HandshakeTimeout: 3 * time.Second}
	switch ext {
	case "forged":
		hdr.Set("x-piko-forward", "true")
	case "false":
		hdr.Set("x-piko-forward", "false")
	case "hide":
		d.NetDialContext = func(ctx context.Context, network, addr string) (net.Conn, error) {
			c, err := (&net.Dialer{}).DialContext(ctx, network, addr)
			if err != nil {
				return nil, err
			}
			return &hideConn{Conn: c}, nil
		}
	}
	ws, resp, err := d.Dial("ws://"+proxyAddr+"/_piko/v1/tcp/"+endpoint, hdr)
	if err != nil {
		st := 0
		if resp != nil {
			st = resp.StatusCode
		}
		return psim.Reply{Status: st, Err: err.Error()}
	}
	conn := pikows.New(ws)
	defer conn.Close()
	_ = conn.SetDeadline(time.Now().Add(3 * time.Second))
	req, _ := http.NewRequest("GET", "http://tunnel/over-tcp", nil)
	req.Close = true
	if err := req.Write(conn); err != nil {
		return psim.Reply{Status: -1, Err: err.Error()}
	}
	r, err := http.ReadResponse(bufio.NewReader(conn), req)
	if err != nil {
		return psim.Reply{Status: -1, Err: err.Error()}
	}
	defer r.Body.Close()
	b, _ := io.ReadAll(r.Body)
	rep := psim.Reply{Status: r.StatusCode, Body: b, Header: r.Header}
	var st psim.Stamp
	if json.Unmarshal(b, &st) == nil && st.Upstream != "" {
		rep.Stamp = &st
	}
	return rep
}

func contains(xs []string, x string) bool {
	for _, y := range xs {
		if y == x {
			return true
		}
	}
	return false
}

func subsets(xs []string) [][]string {
	out := [][]string{{}}
	for _, x := range xs {
		n := len(out)
		for i := 0; i < n; i++ {
			s := append(append([]string{}, out[i]...), x)
			out = append(out, s)
		}
	}
	return out
}

type emitter func(*Step)

// ---- C06 ---------------------------------------------------------------------

type c06case struct {
	has    []string
	gone   []string
	rejoin []string
	bel   map[string][]string
	entry string
	ext   string
	route string
}

func runC06(c *cluster, cases []c06case, emit emitter) error {
	ids := c.ids()
	// group by placement so listeners are only re-created when it changes
	keyOf := func(cs c06case) string {
		return strings.Join(cs.has, ",") + "|" + strings.Join(cs.gone, ",") + "|" + strings.Join(cs.rejoin, ",")
	}
	sort.SliceStable(cases, func(i, j int) bool { return keyOf(cases[i]) < keyOf(cases[j]) })
	var cur string
	var ups []*psim.Upstream
	goneUps := map[string]*psim.Upstream{}
	registers := func(id string) bool {
		m, err := c.byID[id].UpstreamEndpoints("")
		return err == nil && m["e"] > 0
	}
	// an upstream that registers and then tells the server it accepts no more connections (go-away); it stays
	// registered until a request is routed to it
	// whether the other nodes' gossip state lists a live endpoint:e entry of id (what the node itself
	// published, whatever beliefs were injected into the routing tables since)
	othersKnow := func(id string, want bool) bool {
		for _, n := range ids {
			if n == id {
				continue
			}
			st, ok := c.byID[n].Server.VerifGossip().NodeState(id)
			if !ok {
				return false
			}
			live := false
			for _, e := range st.Entries {
				if e.Key == "endpoint:e" && !e.Deleted {
					live = true
				}
			}
			if live != want {
				return false
			}
		}
		return true
	}
	placeGone := func(id string) error {
		if u := goneUps[id]; u != nil {
			u.Shutdown()
			delete(goneUps, id)
			if !psim.WaitFor(10*time.Second, func() bool { return !registers(id) }) {
				return fmt.Errorf("the go-away upstream of %s was not removed after its client closed", id)
			}
		}
		u, err := psim.Listen(context.Background(), c.byID[id].UpstreamAddr(), "e", "g-"+id, "", "")
		if err != nil {
			return err
		}
		goneUps[id] = u
		if !psim.WaitFor(30*time.Second, func() bool { return othersKnow(id, true) }) {
			return fmt.Errorf("the registration of the go-away upstream of %s did not reach the other nodes", id)
		}
		_ = u.Ln.Close()
		time.Sleep(30 * time.Millisecond) // the go-away frame is on its way; nothing observable tells when it arrived
		return nil
	}
	// the history behind a reconnected upstream: a first upstream registers, announces go-away, a request on the
	// node uses it up (the proxy removes it on ErrGone); the caller then connects the listener again and calls the
	// returned function, which ends the first session - its handler's deferred removal runs for an upstream that
	// is no longer registered while its successor is
	beforeRejoin := func(id string) (func(), error) {
		g, err := psim.Listen(context.Background(), c.byID[id].UpstreamAddr(), "e", "g-"+id, "", "")
		if err != nil {
			return nil, err
		}
		if !psim.WaitFor(30*time.Second, func() bool { return registers(id) }) {
			g.Shutdown()
			return nil, fmt.Errorf("the first upstream of %s did not register", id)
		}
		_ = g.Ln.Close()
		for i := 0; i < 100 && registers(id); i++ {
			time.Sleep(30 * time.Millisecond)
			_ = psim.Request(c.byID[id].ProxyAddr(), "header", "e", "GET", "/c06-rejoin", nil, nil)
		}
		if registers(id) {
			g.Shutdown()
			return nil, fmt.Errorf("the go-away upstream of %s was never removed by a request", id)
		}
		return func() { g.Shutdown(); time.Sleep(50 * time.Millisecond) }, nil
	}
	advertised := func(has []string) bool {
		for _, id := range ids {
			if !othersKnow(id, contains(has, id)) {
				return false
			}
		}
		return true
	}
	first := true
	for _, cs := range cases {
		key := keyOf(cs)
		if first || key != cur {
			first = false
			for _, u := range ups {
				u.Shutdown()
			}
			ups = nil
			for id, u := range goneUps {
				u.Shutdown()
				delete(goneUps, id)
			}
			// forget every injected belief and wait until nobody advertises or
			// believes anything; the new placement is then learned through gossip
			psim.WaitFor(5*time.Second, func() bool {
				for _, n := range c.nodes {
					m, err := n.UpstreamEndpoints("")
					if err != nil || len(m) != 0 {
						return false
					}
				}
				return true
			})
			time.Sleep(100 * time.Millisecond)
			for _, n := range ids {
				for _, m := range ids {
					if n != m {
						c.byID[n].Server.ClusterState().RemoveRemoteEndpoint(m, "e")
					}
				}
			}
			if !psim.WaitFor(30*time.Second, func() bool { return psim.Settled(c.nodes, "") }) {
				return fmt.Errorf("did not settle after clearing the placement")
			}
			for _, id := range cs.has {
				var endFirst func()
				if contains(cs.rejoin, id) {
					f, err := beforeRejoin(id)
					if err != nil {
						return err
					}
					endFirst = f
				}
				u, err := psim.Listen(context.Background(), c.byID[id].UpstreamAddr(), "e", "u-"+id, "", "")
				if err != nil {
					return err
				}
				ups = append(ups, u)
				if endFirst != nil {
					if !psim.WaitFor(30*time.Second, func() bool { return registers(id) }) {
						return fmt.Errorf("the reconnected upstream of %s did not register", id)
					}
					endFirst()
				}
			}
			cur = key
			if len(cs.rejoin) > 0 {
				// judged by the request, not by the node's own report of its registry: wait for what the others learn
				if !psim.WaitFor(30*time.Second, func() bool { return advertised(cs.has) }) {
					return fmt.Errorf("placement %v (reconnected: %v) was not advertised", cs.has, cs.rejoin)
				}
				time.Sleep(50 * time.Millisecond)
			} else if !psim.WaitFor(30*time.Second, func() bool { return psim.Settled(c.nodes, "") }) {
				return fmt.Errorf("did not settle for placement %v", cs.has)
			}
			for _, id := range cs.gone {
				if err := placeGone(id); err != nil {
					return err
				}
			}
		}
		// a go-away upstream that an earlier request used up is replaced
		for _, id := range cs.gone {
			if !registers(id) {
				if !psim.WaitFor(30*time.Second, func() bool { return othersKnow(id, false) }) {
					return fmt.Errorf("the removal of the go-away upstream of %s did not reach the other nodes", id)
				}
				if err := placeGone(id); err != nil {
					return err
				}
			}
		}
		// inject the beliefs (right or wrong) through the public cluster state API
		for _, n := range ids {
			for _, m := range ids {
				if n == m {
					continue
				}
				cst := c.byID[n].Server.ClusterState()
				if contains(cs.bel[n], m) {
					cst.UpdateRemoteEndpoint(m, "e", 1)
				} else {
					cst.RemoveRemoteEndpoint(m, "e")
				}
			}
		}
		before := c.quiesce()
		var rep psim.Reply
		if cs.route == "http" {
			hdr := map[string]string{}
			switch cs.ext {
			case "forged":
				hdr["x-piko-forward"] = "true"
			case "false":
				hdr["x-piko-forward"] = "false"
			case "hide":
				hdr["Connection"] = "x-piko-forward"
			}
			rep = psim.Request(c.byID[cs.entry].ProxyAddr(), "header", "e", "GET", "/c06", hdr, nil)
		} else {
			rep = tcpRequest(c.byID[cs.entry].ProxyAddr(), "e", cs.ext)
		}
		after := c.quiesce()
		s := &Step{Op: "Route", Nodes: ids, Has: cs.has, Gone: []string{}, Dereg: []string{}, Rejoin: append([]string{}, cs.rejoin...), Entry: cs.entry, Ext: cs.ext,
			Route: cs.route, Status: rep.Status}
		for _, id := range cs.gone {
			s.Gone = append(s.Gone, id)
			if !registers(id) {
				s.Dereg = append(s.Dereg, id)
			}
		}
		for _, n := range ids {
			b := cs.bel[n]
			if b == nil {
				b = []string{}
			}
			s.Bel = append(s.Bel, Belief{N: n, B: b})
			s.Runs = append(s.Runs, Run{N: n, C: after[n] - before[n]})
		}
		if rep.Stamp != nil {
			s.ServedU, s.ServedE = rep.Stamp.Upstream, rep.Stamp.Endpoint
			s.ServedBy = strings.TrimPrefix(rep.Stamp.Upstream, "u-")
		}
		if rep.Err != "" {
			s.Note = rep.Err
		}
		emit(s)
	}
	for _, u := range ups {
		u.Shutdown()
	}
	for _, u := range goneUps {
		u.Shutdown()
	}
	return nil
}

func allC06(ids []string) []c06case {
	var out []c06case
	var belChoices []map[string][]string
	var rec func(i int, cur map[string][]string)
	rec = func(i int, cur map[string][]string) {
		if i == len(ids) {
			cp := map[string][]string{}
			for k, v := range cur {
				cp[k] = v
			}
			belChoices = append(belChoices, cp)
			return
		}
		var others []string
		for _, m := range ids {
			if m != ids[i] {
				others = append(others, m)
			}
		}
		for _, s := range subsets(others) {
			cur[ids[i]] = s
			rec(i+1, cur)
		}
	}
	rec(0, map[string][]string{})
	for _, has := range subsets(ids) {
		// no go-away upstream, or exactly one node whose only upstream has gone away
		gones := [][]string{{}}
		for _, g := range ids {
			if !contains(has, g) {
				gones = append(gones, []string{g})
			}
		}
		for _, gone := range gones {
			for _, bel := range belChoices {
				for _, entry := range ids {
					for _, ext := range []string{"none", "forged", "false", "hide"} {
						for _, route := range []string{"http", "tcp"} {
							out = append(out, c06case{has: has, gone: gone, bel: bel, entry: entry, ext: ext, route: route})
						}
					}
				}
			}
		}
		// every placement again with one of its upstreams being a reconnection after a go-away
		for _, r := range has {
			for _, bel := range belChoices {
				for _, entry := range ids {
					for _, ext := range []string{"none", "forged"} {
						for _, route := range []string{"http", "tcp"} {
							out = append(out, c06case{has: has, gone: []string{}, rejoin: []string{r}, bel: bel, entry: entry, ext: ext, route: route})
						}
					}
				}
			}
		}
	}
	return out
}

// ---- C01 ---------------------------------------------------------------------

var c01endpoints = []string{"e", "e1", "e.x"}

// settled placement requests that were refused at first and served once everything had settled again
var transientRetries, transientServed int

func runC01Placement(c *cluster, placed []Placed, emit emitter, rng *rand.Rand) error {
	var ups []*psim.Upstream
	for _, p := range placed {
		u, err := psim.Listen(context.Background(), c.byID[p.N].UpstreamAddr(), p.E, p.U, "", "")
		if err != nil {
			return err
		}
		ups = append(ups, u)
	}
	defer func() {
		for _, u := range ups {
			u.Shutdown()
		}
	}()
	// "settled": every routing table lists what the registries hold; failing that (30 s), every routing table has
	// at least stopped changing - the property speaks of routing information that has settled, not of correct one
	settle := func() error {
		if psim.WaitFor(30*time.Second, func() bool { return psim.Settled(c.nodes, "") }) {
			return nil
		}
		snap := func() string {
			var b []byte
			for _, n := range c.nodes {
				cn, _ := n.ClusterNodes("")
				x, _ := json.Marshal(cn)
				b = append(b, x...)
			}
			return string(b)
		}
		a := snap()
		time.Sleep(1500 * time.Millisecond)
		if snap() != a {
			return fmt.Errorf("did not settle for placement %v", placed)
		}
		return nil
	}
	if err := settle(); err != nil {
		return err
	}
	sweep := func(placed []Placed, targets []string) {
		for _, entry := range c.ids() {
			for _, target := range targets {
				for _, mode := range []string{"host", "header", "header-hide", "tcp", "tcp-conflict"} {
					if mode == "host" && strings.Contains(target, ".") {
						continue // a label cannot contain a dot
					}
					send := func() psim.Reply {
						var rep psim.Reply
						switch mode {
						case "tcp":
							rep = tcpRequest(c.byID[entry].ProxyAddr(), target, "none")
						case "tcp-conflict":
							// the path names the endpoint on the TCP route, whatever Host and header say
							other := "e1"
							if target == "e1" {
								other = "e"
							}
							rep = tcpRequestHdr(c.byID[entry].ProxyAddr(), target, "none",
								map[string]string{"Host": other + ".piko.example.com", "x-piko-endpoint": other})
						default:
							// a conflicting Host label when the header names the endpoint
							hdr := map[string]string{}
							if mode == "header" || mode == "header-hide" {
								hdr["Host"] = "e1.piko.example.com"
							}
							reqMode := mode
							if mode == "header-hide" {
								// the client names the endpoint header as a hop-by-hop header: the request is still
								// addressed to the endpoint the header names, on every hop
								hdr["Connection"] = "x-piko-endpoint"
								reqMode = "header"
							}
							rep = psim.Request(c.byID[entry].ProxyAddr(), reqMode, target, "GET", "/c01?x=1", hdr, nil)
						}
						return rep
					}
					rep := send()
					settled, note := true, ""
					want := false
					for _, p := range placed {
						want = want || p.E == target
					}
					if want && rep.Status != 200 {
						// the routing information may have stopped being settled under the request (on a starved
						// machine a failure detector can flag a peer for a moment): the request is judged as
						// "settled" only if it fails again once everything has settled again
						transientRetries++
						first := rep.Status
						time.Sleep(300 * time.Millisecond)
						psim.WaitFor(30*time.Second, func() bool { return psim.Settled(c.nodes, "") })
						rep = send()
						if rep.Status == 200 {
							transientServed++
							settled = false
							note = fmt.Sprintf("first attempt answered %d; served after the routing information had settled again;", first)
						}
					}
					s := &Step{Op: "Place", Nodes: c.ids(), Placed: placed, Entry: entry, Mode: mode, Target: target,
						Status: rep.Status, Settled: settled, Note: note}
					if rep.Stamp != nil {
						s.ServedU, s.ServedE = rep.Stamp.Upstream, rep.Stamp.Endpoint
					}
					if rep.Err != "" {
						s.Note += rep.Err
					}
					emit(s)
				}
			}
		}
	}
	sweep(placed, c01endpoints)
	// one of several upstreams of an endpoint on one node disconnects: the endpoint is still served from every node
	for i, p := range placed {
		twin := false
		for j, q := range placed {
			twin = twin || (i != j && p.E == q.E && p.N == q.N)
		}
		if !twin {
			continue
		}
		ups[i].Shutdown()
		rest := append(append([]Placed{}, placed[:i]...), placed[i+1:]...)
		left := 0
		for _, q := range rest {
			if q.E == p.E && q.N == p.N {
				left++
			}
		}
		if !psim.WaitFor(5*time.Second, func() bool {
			m, err := c.byID[p.N].UpstreamEndpoints("")
			return err == nil && m[p.E] == left
		}) {
			return fmt.Errorf("the registry of %s did not drop the closed upstream of %s", p.N, p.E)
		}
		time.Sleep(100 * time.Millisecond)
		if err := settle(); err != nil {
			return err
		}
		sweep(rest, []string{p.E})
		break
	}
	return nil
}

// churn: upstreams of several endpoints connect and disconnect on random nodes
// while requests for all endpoints are in flight from every node.
func runC01Churn(c *cluster, rounds int, emit emitter, rng *rand.Rand) {
	ids := c.ids()
	stable, err := psim.Listen(context.Background(), c.byID[ids[0]].UpstreamAddr(), "e", "stable-e", "", "")
	if err != nil {
		return
	}
	defer stable.Shutdown()
	var mu sync.Mutex
	var steps []*Step
	stop := make(chan struct{})
	var wg sync.WaitGroup
	for w := 0; w < 3; w++ {
		seed := rng.Int63()
		wg.Add(1)
		go func() {
			defer wg.Done()
			r := rand.New(rand.NewSource(seed))
			for i := 0; ; i++ {
				select {
				case <-stop:
					return
				default:
				}
				e := c01endpoints[r.Intn(len(c01endpoints))]
				n := ids[r.Intn(len(ids))]
				u, err := psim.Listen(context.Background(), c.byID[n].UpstreamAddr(), e, fmt.Sprintf("churn-%s-%d", e, i), "", "")
				if err != nil {
					continue
				}
				time.Sleep(time.Duration(r.Intn(30)) * time.Millisecond)
				u.Shutdown()
			}
		}()
	}
	for i := 0; i < rounds; i++ {
		entry := ids[rng.Intn(len(ids))]
		target := c01endpoints[rng.Intn(len(c01endpoints))]
		mode := []string{"header", "tcp", "host"}[rng.Intn(3)]
		if mode == "host" && strings.Contains(target, ".") {
			mode = "header"
		}
		var rep psim.Reply
		if mode == "tcp" {
			rep = tcpRequest(c.byID[entry].ProxyAddr(), target, "none")
		} else {
			rep = psim.Request(c.byID[entry].ProxyAddr(), mode, target, "GET", "/churn", nil, nil)
		}
		s := &Step{Op: "Churn", Nodes: ids, Entry: entry, Mode: mode, Target: target, Status: rep.Status}
		if rep.Stamp != nil {
			s.ServedU, s.ServedE = rep.Stamp.Upstream, rep.Stamp.Endpoint
		}
		if rep.Err != "" {
			s.Note = rep.Err
		}
		mu.Lock()
		steps = append(steps, s)
		mu.Unlock()
	}
	close(stop)
	wg.Wait()
	for _, s := range steps {
		emit(s)
	}
}

func main() {
	schedPath := flag.String("schedules", "", "")
	outPath := flag.String("out", "", "")
	statsPath := flag.String("stats", "", "")
	seed := flag.Int64("seed", 1, "")
	flag.Parse()
	raw, err := os.ReadFile(*schedPath)
	if err != nil {
		fmt.Fprintln(os.Stderr, "peng:", err)
		os.Exit(2)
	}
	var sf sched
	if err := json.Unmarshal(raw, &sf); err != nil {
		fmt.Fprintln(os.Stderr, "peng:", err)
		os.Exit(2)
	}
	out, err := os.Create(*outPath)
	if err != nil {
		fmt.Fprintln(os.Stderr, "peng:", err)
		os.Exit(2)
	}
	defer out.Close()
	bw := bufio.NewWriterSize(out, 1<<20)
	defer bw.Flush()
	enc := json.NewEncoder(bw)
	steps := 0
	byOp := map[string]int{}
	distinct := map[string]bool{}
	emit := func(s *Step) {
		if s.Nodes == nil {
			s.Nodes = []string{}
		}
		if s.Has == nil {
			s.Has = []string{}
		}
		if s.Bel == nil {
			s.Bel = []Belief{}
		}
		if s.Gone == nil {
			s.Gone = []string{}
		}
		if s.Dereg == nil {
			s.Dereg = []string{}
		}
		if s.Rejoin == nil {
			s.Rejoin = []string{}
		}
		if s.Runs == nil {
			s.Runs = []Run{}
		}
		if s.Placed == nil {
			s.Placed = []Placed{}
		}
		if s.Lst == nil {
			s.Lst = []Lstate{}
		}
		if s.Reg == nil {
			s.Reg = []EC{}
		}
		if s.Adv == nil {
			s.Adv = []EC{}
		}
		if s.Gos == nil {
			s.Gos = []EC{}
		}
		if s.Checks == nil {
			s.Checks = []Check{}
		}
		if s.Tl == nil {
			s.Tl = []TLE{}
		}
		if s.Fields == nil {
			s.Fields = []string{}
		}
		if s.Cmd == "" {
			b, _ := json.Marshal([]interface{}{s.Op, s.Nodes, s.Has, s.Bel, s.Entry, s.Ext, s.Route, s.Mode, s.Target, s.Placed, s.Gone, s.Rejoin})
			s.Cmd = string(b)
		}
		steps++
		byOp[s.Op]++
		distinct[fmt.Sprintf("%s/%d/%s/%v/%s%v%d%v", s.Op, s.Status, s.ServedBy+s.ServedE, s.Runs, s.Ev, s.Reg, s.Sess, s.Dereg)] = true
		_ = enc.Encode(s)
	}
	fail := func(err error) {
		bw.Flush()
		fmt.Fprintln(os.Stderr, "peng: scenario could not be set up:", err)
		os.Exit(4)
	}
	rng := rand.New(rand.NewSource(*seed))
	emit(&Step{Op: "Reset"})

	// replay
	if len(sf.Behaviours) > 0 && sf.Mode != "c16" {
		for _, beh := range sf.Behaviours {
			for _, a := range beh {
				if len(a) < 10 {
					continue
				}
				b, _ := json.Marshal(a)
				var arr []json.RawMessage
				_ = json.Unmarshal(b, &arr)
				var s Step
				_ = json.Unmarshal(arr[0], &s.Op)
				_ = json.Unmarshal(arr[1], &s.Nodes)
				_ = json.Unmarshal(arr[2], &s.Has)
				_ = json.Unmarshal(arr[3], &s.Bel)
				_ = json.Unmarshal(arr[4], &s.Entry)
				_ = json.Unmarshal(arr[5], &s.Ext)
				_ = json.Unmarshal(arr[6], &s.Route)
				_ = json.Unmarshal(arr[7], &s.Mode)
				_ = json.Unmarshal(arr[8], &s.Target)
				_ = json.Unmarshal(arr[9], &s.Placed)
				if len(arr) > 10 {
					_ = json.Unmarshal(arr[10], &s.Gone)
				}
				if len(arr) > 11 {
					_ = json.Unmarshal(arr[11], &s.Rejoin)
				}
				c, err := startCluster(len(s.Nodes))
				if err != nil {
					fail(err)
				}
				switch s.Op {
				case "Route":
					bel := map[string][]string{}
					for _, x := range s.Bel {
						bel[x.N] = x.B
					}
					if err := runC06(c, []c06case{{has: s.Has, gone: s.Gone, rejoin: s.Rejoin, bel: bel, entry: s.Entry, ext: s.Ext, route: s.Route}}, emit); err != nil {
						fail(err)
					}
				case "Place":
					if err := runC01Placement(c, s.Placed, emit, rng); err != nil {
						fail(err)
					}
				case "Churn":
					runC01Churn(c, 200, emit, rng)
				}
				c.stop()
			}
		}
		writeStats(*statsPath, steps, byOp, len(distinct))
		return
	}

	switch sf.Mode {
	case "c06":
		c, err := startCluster(sf.N)
		if err != nil {
			fail(err)
		}
		cases := allC06(c.ids())
		if sf.GoneSample > 0 {
			var plain, gone []c06case
			for _, cs := range cases {
				if len(cs.gone) == 0 {
					plain = append(plain, cs)
				} else {
					gone = append(gone, cs)
				}
			}
			rng.Shuffle(len(gone), func(i, j int) { gone[i], gone[j] = gone[j], gone[i] })
			if sf.GoneSample < len(gone) {
				gone = gone[:sf.GoneSample]
			}
			cases = append(plain, gone...)
		}
		if sf.Sample > 0 && sf.Sample < len(cases) {
			rng.Shuffle(len(cases), func(i, j int) { cases[i], cases[j] = cases[j], cases[i] })
			cases = cases[:sf.Sample]
		}
		if err := runC06(c, cases, emit); err != nil {
			fail(err)
		}
		c.stop()
	case "c01":
		c, err := startCluster(sf.N)
		if err != nil {
			fail(err)
		}
		ids := c.ids()
		// placements of up to 3 upstreams over (endpoint, node)
		type slot struct{ e, n string }
		var slots []slot
		for _, e := range c01endpoints {
			for _, n := range ids {
				slots = append(slots, slot{e, n})
			}
		}
		var placements [][]Placed
		var rec func(start int, cur []Placed)
		rec = func(start int, cur []Placed) {
			placements = append(placements, append([]Placed{}, cur...))
			if len(cur) == 3 {
				return
			}
			for i := start; i < len(slots); i++ {
				rec(i, append(cur, Placed{U: fmt.Sprintf("u%d", len(cur)), E: slots[i].e, N: slots[i].n}))
			}
		}
		rec(0, nil)
		if sf.Sample > 0 && sf.Sample < len(placements) {
			rng.Shuffle(len(placements), func(i, j int) { placements[i], placements[j] = placements[j], placements[i] })
			placements = placements[:sf.Sample]
		}
		for _, p := range placements {
			if err := runC01Placement(c, p, emit, rng); err != nil {
				fail(err)
			}
		}
		if sf.Churn > 0 {
			runC01Churn(c, sf.Churn, emit, rng)
		}
		c.stop()
	case "c16":
		if err := runC16(&sf, *seed, emit); err != nil {
			fail(err)
		}
		if sf.Expiry {
			// the expiry scenarios wait for a wall-clock instant: they run side by side
			type ex struct {
				disabled bool
				tenant   string
			}
			cases := []ex{{false, ""}, {true, ""}, {false, "t1"}, {true, "t1"}}
			outs := make([][]*Step, len(cases))
			errs := make([]error, len(cases))
			var wg sync.WaitGroup
			// the silent network drop is noticed by the keep-alive, which takes most of a minute
			var stallOut []*Step
			var stallErr error
			wg.Add(1)
			go func() {
				defer wg.Done()
				stallErr = runStall(func(s *Step) { stallOut = append(stallOut, s) })
			}()
			var backlogOut []*Step
			var backlogErr error
			wg.Add(1)
			go func() {
				defer wg.Done()
				backlogErr = runBacklog(func(s *Step) { backlogOut = append(backlogOut, s) })
			}()
			for i, c := range cases {
				wg.Add(1)
				go func(i int, c ex) {
					defer wg.Done()
					errs[i] = runExpiry(c.disabled, c.tenant, func(s *Step) { outs[i] = append(outs[i], s) })
				}(i, c)
			}
			wg.Wait()
			for i := range cases {
				if errs[i] != nil {
					fail(errs[i])
				}
				for _, s := range outs[i] {
					emit(s)
				}
			}
			if stallErr != nil {
				fail(stallErr)
			}
			for _, s := range stallOut {
				emit(s)
			}
			if backlogErr != nil {
				fail(backlogErr)
			}
			for _, s := range backlogOut {
				emit(s)
			}
		}
	case "stoporder":
		for i := 0; i < sf.Sample; i++ {
			if err := runStopOrder(sf.N, emit); err != nil {
				fail(err)
			}
		}
	case "c08":
		if err := runC08(rng, sf.Sample, emit); err != nil {
			fail(err)
		}
	case "c18":
		for _, cs := range sf.Cases {
			victim, _ := cs[0].(string)
			phase, _ := cs[1].(string)
			kill, _ := cs[2].(bool)
			if err := runLoss(sf.PikoBin, victim, phase, kill, sf.LogDir, emit); err != nil {
				fail(err)
			}
		}
	}
	writeStats(*statsPath, steps, byOp, len(distinct))
}

func writeStats(path string, steps int, byOp map[string]int, distinct int) {
	if path == "" {
		return
	}
	b, _ := json.Marshal(map[string]interface{}{"steps": steps, "behaviours": 1, "by_op": byOp, "distinct_outcomes": distinct,
		"transient_retries": transientRetries, "transient_served": transientServed, "timeout_retries": timeoutRetries})
	_ = os.WriteFile(path, b, 0o644)
}
