// reng runs one Rebalance() call of the real upstream.Server per case, with
// real yamux sessions registered as open upstream sessions and the other nodes
// added to a real cluster.State, and writes one ndjson line per case for
// validation against spec/TraceRb.tla.
package main

import (
	"bufio"
	"encoding/json"
	"flag"
	"fmt"
	"io"
	"math/rand"
	"net"
	"os"

	"github.com/andydunstall/yamux"

	"github.com/andydunstall/piko/pkg/log"
	"github.com/andydunstall/piko/server/cluster"
	"github.com/andydunstall/piko/server/config"
	"github.com/andydunstall/piko/server/upstream"
)

type Other struct {
	Status string `json:"status"`
	Conns  int    `json:"conns"`
}

type Step struct {
	Op     string  `json:"op"`
	Local  int     `json:"local"`
	Others []Other `json:"others"`
	TN     int     `json:"tn"`
	TD     int     `json:"td"`
	RN     int     `json:"rn"`
	RD     int     `json:"rd"`
	MinC   int     `json:"minc"`
	Shed   int     `json:"shed"`
	Avg    int     `json:"avg"`
	Open   int     `json:"open"`
	Cmd    string  `json:"cmd"`
}

type grid struct {
	MaxLocal   int      `json:"maxLocal"`
	MaxOthers  int      `json:"maxOthers"`
	OtherConns []int    `json:"otherConns"`
	Statuses   []string `json:"statuses"`
	Thresholds [][2]int `json:"thresholds"`
	Rates      [][2]int `json:"rates"`
	Mins       []int    `json:"mins"`
	Sample     int      `json:"sample"` // 0: the whole grid; else this many random cases
	Behaviours [][][]interface{} `json:"behaviours"`
}

func runCase(s *Step) {
	cs := cluster.NewState(&cluster.Node{ID: "local", ProxyAddr: "p", AdminAddr: "a"}, log.NewNopLogger())
	for i := 0; i < s.Local; i++ {
		cs.AddLocalEndpoint("e")
	}
	for i, o := range s.Others {
		n := &cluster.Node{ID: fmt.Sprintf("n%d", i), Status: cluster.NodeStatus(o.Status), ProxyAddr: "p", AdminAddr: "a"}
		if o.Conns > 0 {
			n.Endpoints = map[string]int{"e": o.Conns}
		}
		cs.AddNode(n)
	}
	conf := config.UpstreamConfig{}
	conf.Rebalance.Threshold = float64(s.TN) / float64(s.TD)
	conf.Rebalance.ShedRate = float64(s.RN) / float64(s.RD)
	conf.Rebalance.MinConns = uint(s.MinC)
	mgr := upstream.NewLoadBalancedManager(cs, nil)
	srv := upstream.NewServer(mgr, nil, nil, cs, conf, log.NewNopLogger())
	var servers, clients []*yamux.Session
	var conns []net.Conn
	for i := 0; i < s.Local; i++ {
		a, b := net.Pipe()
		c1, c2 := yamux.DefaultConfig(), yamux.DefaultConfig()
		c1.LogOutput, c2.LogOutput = io.Discard, io.Discard
		c1.EnableKeepAlive, c2.EnableKeepAlive = false, false
		ss, err := yamux.Server(a, c1)
		if err != nil {
			panic(err)
		}
		cl, err := yamux.Client(b, c2)
		if err != nil {
			panic(err)
		}
		servers = append(servers, ss)
		clients = append(clients, cl)
		conns = append(conns, a, b)
		srv.VerifAddSession(ss)
	}
	s.Open = srv.VerifOpenSessions()
	s.Avg = cs.AvgConns()
	if s.TN > 0 {
		// Rebalance is only ever started when the threshold is non-zero (server.go)
		srv.Rebalance()
	}
	for _, ss := range servers {
		if ss.IsClosed() {
			s.Shed++
		}
	}
	for _, ss := range servers {
		ss.Close()
	}
	for _, cl := range clients {
		cl.Close()
	}
	for _, c := range conns {
		c.Close()
	}
}

func main() {
	schedPath := flag.String("schedules", "", "")
	outPath := flag.String("out", "", "")
	statsPath := flag.String("stats", "", "")
	seed := flag.Int64("seed", 1, "")
	flag.Parse()
	raw, err := os.ReadFile(*schedPath)
	if err != nil {
		fmt.Fprintln(os.Stderr, "reng:", err)
		os.Exit(2)
	}
	var g grid
	if err := json.Unmarshal(raw, &g); err != nil {
		fmt.Fprintln(os.Stderr, "reng:", err)
		os.Exit(2)
	}
	out, err := os.Create(*outPath)
	if err != nil {
		fmt.Fprintln(os.Stderr, "reng:", err)
		os.Exit(2)
	}
	defer out.Close()
	bw := bufio.NewWriterSize(out, 1<<20)
	defer bw.Flush()
	enc := json.NewEncoder(bw)
	steps := 0
	distinct := map[string]bool{}
	emit := func(s *Step) {
		if s.Others == nil {
			s.Others = []Other{}
		}
		b, _ := json.Marshal([]interface{}{"Case", s.Local, s.Others, s.TN, s.TD, s.RN, s.RD, s.MinC})
		s.Cmd = string(b)
		runCase(s)
		if steps > 0 && steps%2000 == 0 {
			// cases are independent; a reset line lets the validator split the trace
			_ = enc.Encode(&Step{Op: "Reset", Others: []Other{}, TD: 1, RD: 1, Cmd: `["Reset"]`})
		}
		steps++
		distinct[fmt.Sprintf("%d/%d/%d", s.Open, s.Avg, s.Shed)] = true
		_ = enc.Encode(s)
	}
	_ = enc.Encode(&Step{Op: "Reset", Others: []Other{}, TD: 1, RD: 1, Cmd: `["Reset"]`})
	// replay: explicit cases
	for _, beh := range g.Behaviours {
		for _, a := range beh {
			if len(a) < 8 || a[0] != "Case" {
				continue
			}
			s := &Step{Op: "Case"}
			f := func(i int) int { v, _ := a[i].(float64); return int(v) }
			s.Local, s.TN, s.TD, s.RN, s.RD, s.MinC = f(1), f(3), f(4), f(5), f(6), f(7)
			if arr, ok := a[2].([]interface{}); ok {
				for _, x := range arr {
					m, _ := x.(map[string]interface{})
					st, _ := m["status"].(string)
					c, _ := m["conns"].(float64)
					s.Others = append(s.Others, Other{Status: st, Conns: int(c)})
				}
			}
			emit(s)
		}
	}
	if len(g.Behaviours) > 0 {
		writeStats(*statsPath, steps, len(distinct))
		return
	}
	rng := rand.New(rand.NewSource(*seed))
	mk := func(local int, others []Other, t, r [2]int, m int) {
		oc := make([]Other, len(others))
		copy(oc, others)
		emit(&Step{Op: "Case", Local: local, Others: oc, TN: t[0], TD: t[1], RN: r[0], RD: r[1], MinC: m})
	}
	if g.Sample > 0 {
		for i := 0; i < g.Sample; i++ {
			var others []Other
			for k := rng.Intn(g.MaxOthers + 1); k > 0; k-- {
				others = append(others, Other{Status: g.Statuses[rng.Intn(len(g.Statuses))], Conns: g.OtherConns[rng.Intn(len(g.OtherConns))]})
			}
			mk(rng.Intn(g.MaxLocal+1), others, g.Thresholds[rng.Intn(len(g.Thresholds))], g.Rates[rng.Intn(len(g.Rates))], g.Mins[rng.Intn(len(g.Mins))])
		}
	} else {
		var rec func(others []Other)
		rec = func(others []Other) {
			for local := 0; local <= g.MaxLocal; local++ {
				for _, t := range g.Thresholds {
					for _, r := range g.Rates {
						for _, m := range g.Mins {
							mk(local, others, t, r, m)
						}
					}
				}
			}
			if len(others) < g.MaxOthers {
				for _, st := range g.Statuses {
					for _, c := range g.OtherConns {
						rec(append(append([]Other{}, others...), Other{Status: st, Conns: c}))
					}
				}
			}
		}
		rec(nil)
	}
	writeStats(*statsPath, steps, len(distinct))
}

func writeStats(path string, steps, distinct int) {
	if path == "" {
		return
	}
	b, _ := json.Marshal(map[string]interface{}{"steps": steps + 1, "behaviours": 1, "distinct_outcomes": distinct,
		"by_op": map[string]int{"Case": steps, "Reset": 1}})
	_ = os.WriteFile(path, b, 0o644)
}
