// beng calls the real retry policy (pkg/backoff) the way the client's reconnect loop and the start-up join use
// it and writes one ndjson line per call, for validation against spec/TraceB.tla.
package main

import (
	"bufio"
	"encoding/json"
	"flag"
	"fmt"
	"os"
	"time"

	"github.com/andydunstall/piko/pkg/backoff"
)

type Step struct {
	Op  string `json:"op"` // Reset | Call
	Out int    `json:"out"` // nanoseconds
	OK  bool   `json:"ok"`
	Cmd string `json:"cmd"`
}

type sched struct {
	Retries int `json:"retries"`
	MinNs   int `json:"minNs"`
	MaxNs   int `json:"maxNs"`
	Loops   int `json:"loops"` // fresh Backoff values
	Calls   int `json:"calls"` // calls per value
	// replay
	Behaviours [][][]interface{} `json:"behaviours"`
}

func main() {
	schedPath := flag.String("schedules", "", "")
	outPath := flag.String("out", "", "")
	statsPath := flag.String("stats", "", "")
	_ = flag.Int64("seed", 1, "") // the policy draws its jitter from the global math/rand source
	flag.Parse()
	raw, err := os.ReadFile(*schedPath)
	if err != nil {
		fmt.Fprintln(os.Stderr, "beng:", err)
		os.Exit(2)
	}
	var sf sched
	if err := json.Unmarshal(raw, &sf); err != nil {
		fmt.Fprintln(os.Stderr, "beng:", err)
		os.Exit(2)
	}
	out, err := os.Create(*outPath)
	if err != nil {
		fmt.Fprintln(os.Stderr, "beng:", err)
		os.Exit(2)
	}
	defer out.Close()
	bw := bufio.NewWriter(out)
	defer bw.Flush()
	enc := json.NewEncoder(bw)
	steps := 0
	byOp := map[string]int{}
	emit := func(s *Step) {
		steps++
		byOp[s.Op]++
		_ = enc.Encode(s)
	}
	loops, calls := sf.Loops, sf.Calls
	if len(sf.Behaviours) > 0 {
		loops, calls = 1, len(sf.Behaviours[0])
	}
	for i := 0; i < loops; i++ {
		b := backoff.New(sf.Retries, time.Duration(sf.MinNs), time.Duration(sf.MaxNs))
		emit(&Step{Op: "Reset", OK: true, Cmd: `["Reset"]`})
		for j := 0; j < calls; j++ {
			w, ok := b.Backoff()
			emit(&Step{Op: "Call", Out: int(w), OK: ok, Cmd: `["Call"]`})
		}
	}
	if *statsPath != "" {
		b, _ := json.Marshal(map[string]interface{}{"steps": steps, "behaviours": byOp["Reset"], "by_op": byOp})
		_ = os.WriteFile(*statsPath, b, 0o644)
	}
}
