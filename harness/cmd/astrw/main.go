package main

import (
	"bytes"
	"fmt"
	"go/ast"
	"go/format"
	"go/parser"
	"go/token"
	"os"
	"strings"
)

// usage: astrw <in.go> <out.go> <label-prefix>
func main() {
	in, out, prefix := os.Args[1], os.Args[2], os.Args[3]
	fset := token.NewFileSet()
	f, err := parser.ParseFile(fset, in, nil, parser.ParseComments)
	if err != nil {
		panic(err)
	}
	n := 0
	var lastRecv ast.Expr
	lockCall := func(e ast.Expr) (name, op string, ok bool) {
		c, isCall := e.(*ast.CallExpr)
		if !isCall || len(c.Args) != 0 {
			return
		}
		sel, isSel := c.Fun.(*ast.SelectorExpr)
		if !isSel {
			return
		}
		switch sel.Sel.Name {
		case "Lock", "RLock", "Unlock", "RUnlock":
		default:
			return
		}
		var buf bytes.Buffer
		format.Node(&buf, fset, sel.X)
		s := buf.String()
		if !strings.HasSuffix(strings.ToLower(s), "mu") {
			return
		}
		// strip receiver var: s.mu -> mu
		if i := strings.Index(s, "."); i >= 0 {
			s = s[i+1:]
		}
		lastRecv = sel.X
		return prefix + "." + s, sel.Sel.Name, true
	}
	// the third argument is the address of the mutex (its instance)
	mk := func(fn, name, op string) ast.Stmt {
		return &ast.ExprStmt{X: &ast.CallExpr{
			Fun: &ast.SelectorExpr{X: ast.NewIdent("vtrace"), Sel: ast.NewIdent(fn)},
			Args: []ast.Expr{&ast.BasicLit{Kind: token.STRING, Value: fmt.Sprintf("%q", name)}, &ast.BasicLit{Kind: token.STRING, Value: fmt.Sprintf("%q", op)},
				&ast.UnaryExpr{Op: token.AND, X: lastRecv}},
		}}
	}
	generated := map[*ast.BlockStmt]bool{}
	var rewriteBlock func(list []ast.Stmt) []ast.Stmt
	rewriteBlock = func(list []ast.Stmt) []ast.Stmt {
		var outl []ast.Stmt
		for _, st := range list {
			switch s := st.(type) {
			case *ast.ExprStmt:
				if name, op, ok := lockCall(s.X); ok {
					n++
					if op == "Lock" || op == "RLock" {
						outl = append(outl, mk("Want", name, op), st, mk("Got", name, op))
					} else {
						outl = append(outl, mk("Rel", name, op), st)
					}
					continue
				}
			case *ast.DeferStmt:
				if name, op, ok := lockCall(s.Call); ok && (op == "Unlock" || op == "RUnlock") {
					n++
					// defer func(){ vtrace.Rel(..); x.Unlock() }()
					body := &ast.BlockStmt{List: []ast.Stmt{mk("Rel", name, op), &ast.ExprStmt{X: s.Call}}}
					generated[body] = true
					fl := &ast.FuncLit{Type: &ast.FuncType{Params: &ast.FieldList{}}, Body: body}
					outl = append(outl, &ast.DeferStmt{Call: &ast.CallExpr{Fun: fl}})
					continue
				}
			}
			outl = append(outl, st)
		}
		return outl
	}
	ast.Inspect(f, func(nd ast.Node) bool {
		switch b := nd.(type) {
		case *ast.BlockStmt:
			if !generated[b] {
				b.List = rewriteBlock(b.List)
			}
		case *ast.CaseClause:
			b.Body = rewriteBlock(b.Body)
		case *ast.CommClause:
			b.Body = rewriteBlock(b.Body)
		}
		return true
	})
	if n > 0 {
		// add import
		imp := &ast.ImportSpec{Path: &ast.BasicLit{Kind: token.STRING, Value: `"github.com/andydunstall/piko/pkg/vtrace"`}}
		for _, d := range f.Decls {
			if g, ok := d.(*ast.GenDecl); ok && g.Tok == token.IMPORT {
				g.Specs = append(g.Specs, imp)
				break
			}
		}
	}
	var buf bytes.Buffer
	if err := format.Node(&buf, fset, f); err != nil {
		panic(err)
	}
	os.WriteFile(out, buf.Bytes(), 0o644)
	fmt.Println(in, "instrumented sites:", n)
}
