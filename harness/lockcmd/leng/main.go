//go:build vtrace

// leng (lock engine, C20) stresses a real in-process piko cluster whose mutex
// call sites were instrumented at build time (go build -overlay, see
// lib/checks_locks.py): concurrent upstream connects / disconnects, proxied
// requests, go-away removals and status reads run against the nodes' own
// goroutines (gossip packet and stream listeners, the four periodic gossip
// tasks). Every operation runs under a watchdog. It reports the lock paths
// every goroutine executed and the quiescent state of every node.
package main

import (
	"bufio"
	"context"
	"encoding/json"
	"flag"
	"fmt"
	"math/rand"
	"os"
	"sort"
	"strconv"
	"strings"
	"sync"
	"sync/atomic"
	"time"

	"github.com/andydunstall/piko/pkg/vtrace"
	"github.com/andydunstall/piko/server/upstream"

	"verifharness/internal/psim"
)

type EC struct {
	E string `json:"e"`
	C int    `json:"c"`
}

type Step struct {
	Op   string `json:"op"` // Reset | Quiet
	Node string `json:"node"`
	Reg  []EC   `json:"reg"`
	Sess int    `json:"sess"`
	Adv  []EC   `json:"adv"`
	Gos  []EC   `json:"gos"`
	Ops  int    `json:"ops"`
	Cmd  string `json:"cmd"`
}

type sched struct {
	Seconds int      `json:"seconds"`
	Nodes   int      `json:"nodes"`
	Gate    []string `json:"gate"`
	PathsTo string   `json:"pathsTo"`
}

func ecOf(m map[string]int) []EC {
	out := []EC{}
	var ks []string
	for k := range m {
		ks = append(ks, k)
	}
	sort.Strings(ks)
	for _, k := range ks {
		out = append(out, EC{E: k, C: m[k]})
	}
	return out
}

var ops atomic.Int64

func guarded(what string, f func()) {
	done := make(chan struct{})
	go func() {
		defer close(done)
		f()
	}()
	select {
	case <-done:
		ops.Add(1)
	case <-time.After(20 * time.Second):
		fmt.Fprintln(os.Stderr, "HANG:", what, "did not complete within 20 s")
		os.Exit(3)
	}
}

func main() {
	schedPath := flag.String("schedules", "", "")
	outPath := flag.String("out", "", "")
	statsPath := flag.String("stats", "", "")
	seed := flag.Int64("seed", 1, "")
	flag.Parse()
	raw, err := os.ReadFile(*schedPath)
	if err != nil {
		fmt.Fprintln(os.Stderr, "leng:", err)
		os.Exit(2)
	}
	var sf sched
	if err := json.Unmarshal(raw, &sf); err != nil {
		fmt.Fprintln(os.Stderr, "leng:", err)
		os.Exit(2)
	}
	if len(sf.Gate) == 4 {
		vtrace.Gate(sf.Gate[0], sf.Gate[1], sf.Gate[2], sf.Gate[3])
	}
	out, err := os.Create(*outPath)
	if err != nil {
		fmt.Fprintln(os.Stderr, "leng:", err)
		os.Exit(2)
	}
	defer out.Close()
	bw := bufio.NewWriter(out)
	defer bw.Flush()
	enc := json.NewEncoder(bw)
	_ = enc.Encode(&Step{Op: "Reset", Reg: []EC{}, Adv: []EC{}, Gos: []EC{}, Cmd: `["Reset"]`})

	var nodes []*psim.Node
	var join []string
	for i := 0; i < sf.Nodes; i++ {
		n, err := psim.StartNode(psim.NodeOpts{ID: string(rune('a' + i)), Join: join})
		if err != nil {
			fmt.Fprintln(os.Stderr, "leng: scenario could not be set up:", err)
			os.Exit(4)
		}
		nodes = append(nodes, n)
		join = append(join, n.GossipAddr())
	}
	endpoints := make([]string, 160)
	for i := range endpoints {
		endpoints[i] = "ep" + strconv.Itoa(i)
	}
	stop := make(chan struct{})
	var wg sync.WaitGroup
	worker := func(id int, body func(r *rand.Rand)) {
		wg.Add(1)
		go func() {
			defer wg.Done()
			r := rand.New(rand.NewSource(*seed*100 + int64(id)))
			for {
				select {
				case <-stop:
					return
				default:
				}
				body(r)
			}
		}()
	}
	// upstream connects / disconnects (many distinct endpoints: their removal leaves
	// deletion markers behind, which makes the periodic compaction run)
	for w := 0; w < 3; w++ {
		worker(w, func(r *rand.Rand) {
			n := nodes[r.Intn(len(nodes))]
			e := endpoints[r.Intn(len(endpoints))]
			var u *psim.Upstream
			guarded("listen "+e, func() {
				ctx, cancel := context.WithTimeout(context.Background(), 10*time.Second)
				defer cancel()
				u, _ = psim.Listen(ctx, n.UpstreamAddr(), e, "u", "", "")
			})
			if u == nil {
				return
			}
			time.Sleep(time.Duration(r.Intn(15)) * time.Millisecond)
			if r.Intn(4) == 0 {
				// go-away first: the proxy removes it on the next request, the handler again on close
				guarded("go-away", func() { _ = u.Ln.Close() })
				guarded("request after go-away", func() {
					psim.Request(nodes[r.Intn(len(nodes))].ProxyAddr(), "header", e, "GET", "/", nil, nil)
				})
			}
			guarded("close "+e, func() { u.Shutdown() })
		})
	}
	// two long-lived upstreams of one hot endpoint on every node: concurrent requests select among the same
	// upstreams at the same time
	var hot []*psim.Upstream
	for _, n := range nodes {
		for i := 0; i < 2; i++ {
			n := n
			guarded("listen hot", func() {
				ctx, cancel := context.WithTimeout(context.Background(), 10*time.Second)
				defer cancel()
				if u, err := psim.Listen(ctx, n.UpstreamAddr(), "hot", "hot", "", ""); err == nil {
					hot = append(hot, u)
				}
			})
		}
	}
	// proxied requests from every node (local selection, remote lookup, forwarding)
	for w := 3; w < 8; w++ {
		worker(w, func(r *rand.Rand) {
			n := nodes[r.Intn(len(nodes))]
			e := endpoints[r.Intn(len(endpoints))]
			if r.Intn(2) == 0 {
				e = "hot"
			}
			guarded("request "+e, func() { psim.Request(n.ProxyAddr(), "header", e, "GET", "/stress", nil, nil) })
		})
	}
	// status reads
	worker(8, func(r *rand.Rand) {
		n := nodes[r.Intn(len(nodes))]
		guarded("status reads", func() {
			_, _ = n.UpstreamEndpoints("")
			_, _ = n.ClusterNodes("")
			var x interface{}
			_, _ = psim.GetJSON(n.AdminAddr(), "/status/gossip/nodes", "", &x)
			_ = n.Metric("", "piko_proxy_requests_total")
		})
		time.Sleep(5 * time.Millisecond)
	})
	// membership churn: a transient node joins the cluster, stays a while and leaves gracefully (join, pending
	// promotion, leave and the corresponding watcher callbacks under load on the permanent nodes)
	var churn atomic.Int64
	worker(9, func(r *rand.Rand) {
		id := fmt.Sprintf("z%d", churn.Add(1))
		var t *psim.Node
		guarded("transient node "+id+" start", func() {
			t, _ = psim.StartNode(psim.NodeOpts{ID: id, Join: []string{nodes[r.Intn(len(nodes))].GossipAddr()}})
		})
		if t == nil {
			return
		}
		time.Sleep(time.Duration(150+r.Intn(350)) * time.Millisecond)
		guarded("transient node "+id+" stop", func() { t.Stop() })
	})
	time.Sleep(time.Duration(sf.Seconds) * time.Second)
	close(stop)
	wg.Wait()
	for _, u := range hot {
		u := u
		guarded("close hot", func() { u.Shutdown() })
	}
	// quiescence: nobody is connected any more
	for _, n := range nodes {
		n := n
		s := &Step{Op: "Quiet", Node: n.ID, Cmd: `["Quiet"]`}
		psim.WaitFor(5*time.Second, func() bool {
			mgr := n.Server.VerifUpstream().VerifManager().(*upstream.LoadBalancedManager)
			s.Reg = ecOf(mgr.Endpoints())
			s.Sess = n.Server.VerifUpstream().VerifOpenSessions()
			s.Adv = ecOf(n.Server.ClusterState().LocalNode().Endpoints)
			gos := map[string]int{}
			if st, ok := n.Server.VerifGossip().NodeState(n.ID); ok {
				for _, e := range st.Entries {
					if strings.HasPrefix(e.Key, "endpoint:") && !e.Deleted {
						c, _ := strconv.Atoi(e.Value)
						gos[strings.TrimPrefix(e.Key, "endpoint:")] = c
					}
				}
			}
			s.Gos = ecOf(gos)
			return len(s.Reg) == 0 && s.Sess == 0 && len(s.Adv) == 0 && len(s.Gos) == 0
		})
		s.Ops = int(ops.Load())
		_ = enc.Encode(s)
	}
	for _, n := range nodes {
		n := n
		guarded("shutdown "+n.ID, func() { n.Stop() })
	}
	paths := vtrace.Paths()
	if sf.PathsTo != "" {
		b, _ := json.Marshal(paths)
		_ = os.WriteFile(sf.PathsTo, b, 0o644)
	}
	if *statsPath != "" {
		events, gateHits, matched := vtrace.Stats()
		b, _ := json.Marshal(map[string]interface{}{"steps": 1 + len(nodes), "behaviours": 1, "operations": ops.Load(),
			"lock_events": events, "distinct_lock_paths": len(paths), "gate_hits": gateHits, "gate_matched": matched,
			"by_op": map[string]int{"Reset": 1, "Quiet": len(nodes)}})
		_ = os.WriteFile(*statsPath, b, 0o644)
	}
}
