package gsim

import (
	"net"
	"sync"
)

// Stream listeners are bound once per process and lent to one cluster after
// the other: thousands of short-lived clusters would otherwise exhaust the
// ephemeral ports (every bind of port 0 takes one, every closed stream
// connection keeps one in TIME_WAIT).

type poolLn struct {
	real net.Listener
	mu   sync.Mutex
	cur  *lentLn
}

type lentLn struct {
	p      *poolLn
	ch     chan net.Conn
	closed chan struct{}
	once   sync.Once
}

var (
	poolMu sync.Mutex
	pool   []*poolLn
)

func lendListener(i int) (net.Listener, error) {
	poolMu.Lock()
	defer poolMu.Unlock()
	for len(pool) <= i {
		ln, err := net.Listen("tcp", "127.0.0.1:0")
		if err != nil {
			return nil, err
		}
		p := &poolLn{real: ln}
		pool = append(pool, p)
		go p.accept()
	}
	p := pool[i]
	l := &lentLn{p: p, ch: make(chan net.Conn, 16), closed: make(chan struct{})}
	p.mu.Lock()
	p.cur = l
	p.mu.Unlock()
	return l, nil
}

func (p *poolLn) accept() {
	for {
		c, err := p.real.Accept()
		if err != nil {
			return
		}
		p.mu.Lock()
		cur := p.cur
		p.mu.Unlock()
		if cur == nil {
			c.Close()
			continue
		}
		select {
		case cur.ch <- c:
		case <-cur.closed:
			c.Close()
		}
	}
}

func (l *lentLn) Accept() (net.Conn, error) {
	select {
	case c := <-l.ch:
		return c, nil
	case <-l.closed:
		return nil, net.ErrClosed
	}
}

func (l *lentLn) Close() error {
	l.once.Do(func() {
		close(l.closed)
		l.p.mu.Lock()
		if l.p.cur == l {
			l.p.cur = nil
		}
		l.p.mu.Unlock()
		for {
			select {
			case c := <-l.ch:
				c.Close()
			default:
				return
			}
		}
	})
	return nil
}

func (l *lentLn) Addr() net.Addr { return l.p.real.Addr() }
