// Package gsim drives real piko gossip nodes (pkg/gossip, built with the
// 'verif' tag) under a schedule chosen by the caller: no goroutines, no
// sockets for datagrams, every datagram captured and delivered, dropped or
// duplicated on command. Every step is logged with the state observed from the
// implementation afterwards.
package gsim

import (
	"sync"
	"encoding/json"
	"fmt"
	"net"
	"sort"
	"strconv"
	"strings"
	"time"

	"github.com/andydunstall/piko/pkg/gossip"
	"github.com/andydunstall/piko/pkg/log"
	"github.com/andydunstall/piko/server/cluster"
	sgossip "github.com/andydunstall/piko/server/gossip"
)

const BigPacket = 60000

// ---- logged value shapes (must match spec/TraceG.tla) ----------------------

type Ent struct {
	K   string `json:"k"`
	V   string `json:"v"`
	Ver int    `json:"ver"`
	Del bool   `json:"del"`
	Int bool   `json:"int"`
	Cv  int    `json:"cv"`
}

type View struct {
	N       string `json:"n"`
	Ver     int    `json:"ver"`
	Left    bool   `json:"left"`
	Unreach bool   `json:"unreach"`
	Ents    []Ent  `json:"ents"`
}

type NodeViews struct {
	O     string `json:"o"`
	Views []View `json:"views"`
}

type DigEnt struct {
	ID   string `json:"id"`
	Ver  int    `json:"ver"`
	Left bool   `json:"left"`
}

type DeltaNode struct {
	ID   string `json:"id"`
	Ents []Ent  `json:"ents"`
}

type Msg struct {
	Slot int         `json:"slot"`
	T    string      `json:"t"`
	From string      `json:"from"`
	To   string      `json:"to"`
	Req  bool        `json:"req"`
	Dig  []DigEnt    `json:"dig"`
	D    []DeltaNode `json:"d"`
	Ans  []DigEnt    `json:"ans"`

	bytes []byte
}

type Event struct {
	O string `json:"o"`
	T string `json:"t"`
	N string `json:"n"`
	K string `json:"k"`
	V string `json:"v"`
}

type Queue struct {
	O string   `json:"o"`
	Q []string `json:"q"`
}

type RNode struct {
	N      string   `json:"n"`
	Status string   `json:"status"`
	Proxy  string   `json:"proxy"`
	Admin  string   `json:"admin"`
	Eps    []EpCnt  `json:"eps"`
	Lookup []string `json:"-"`
}

type EpCnt struct {
	E string `json:"e"`
	C int    `json:"c"`
}

type RTable struct {
	O       string  `json:"o"`
	Nodes   []RNode `json:"nodes"`
	Pending []RNode `json:"pending"`
	// Lookup[e] = node returned by LookupEndpoint(e), "" if none
	Lookup []EpLookup `json:"lookup"`
}

type EpLookup struct {
	E string `json:"e"`
	N string `json:"n"`
}

// Step is one line of the trace.
type Step struct {
	Op        string      `json:"op"`
	N         string      `json:"n"`
	K         string      `json:"k"`
	V         string      `json:"v"`
	Thr       int         `json:"thr"`
	A         string      `json:"a"`
	B         string      `json:"b"`
	Slot      int         `json:"slot"`
	Keep      bool        `json:"keep"`
	Cut       int         `json:"cut"`
	SendEmpty bool        `json:"sendEmpty"`
	Flag      bool        `json:"flag"`
	Kx        int         `json:"kx"`
	Dseq      []DigEnt    `json:"dseq"`
	Rseq      []DigEnt    `json:"rseq"`
	Fseq      []string    `json:"fseq"`
	Ord       []string    `json:"ord"`
	Chg       []NodeViews `json:"chg"`
	Armq      []Queue     `json:"armq"`
	Alive     []string    `json:"alive"`
	Susp      []Queue     `json:"susp"`
	Net       []Msg       `json:"net"`
	Evts      []Event     `json:"evts"`
	Tables    []RTable    `json:"tables"`
	Reports   []string    `json:"reports"`
	Err       string      `json:"err"`
	Note      string      `json:"note"`
	PktMax    int         `json:"pktmax"`
	Cmd       string      `json:"cmd"`
	// encoder sweeps (op Encode / EncodeDigest)
	Hdr    int         `json:"hdr"`
	OutLen int         `json:"outlen"`
	Cum    []int       `json:"cum"`
	D2     []DeltaNode `json:"d2"`
	Dec    []DeltaNode `json:"dec"`
	Dig2   []DigEnt    `json:"dig2"`
	DigDec []DigEnt    `json:"digdec"`
	PktLens   []int       `json:"pktlens"`
	Unord   int      `json:"unord"` // emitted delta node lists that are not in strictly increasing version order
}

// ---- cluster ---------------------------------------------------------------

type captureConn struct {
	c    *Cluster
	node string
}

type fakeAddr string

func (a fakeAddr) Network() string { return "udp" }
func (a fakeAddr) String() string  { return string(a) }

func (c *captureConn) ReadFrom(p []byte) (int, net.Addr, error) { select {} }
func (c *captureConn) WriteTo(p []byte, addr net.Addr) (int, error) {
	b := make([]byte, len(p))
	copy(b, p)
	c.c.outbox = append(c.c.outbox, rawPkt{from: c.node, toAddr: addr.String(), b: b})
	return len(p), nil
}
func (c *captureConn) Close() error                       { return nil }
func (c *captureConn) LocalAddr() net.Addr                { return fakeAddr(c.c.addrOf[c.node]) }
func (c *captureConn) SetDeadline(t time.Time) error      { return nil }
func (c *captureConn) SetReadDeadline(t time.Time) error  { return nil }
func (c *captureConn) SetWriteDeadline(t time.Time) error { return nil }

type rawPkt struct {
	from   string
	toAddr string
	b      []byte
}

type recWatcher struct {
	c     *Cluster
	node  string
	inner gossip.Watcher
}

func (w *recWatcher) rec(t, n, k, v string) {
	// (the code under test calls its watcher under the state mutex; a changed tree may not)
	w.c.evMu.Lock()
	w.c.events = append(w.c.events, Event{O: w.node, T: t, N: n, K: k, V: v})
	w.c.evMu.Unlock()
}
func (w *recWatcher) OnJoin(n string) {
	w.rec("join", n, "", "")
	if w.inner != nil {
		w.inner.OnJoin(n)
	}
}
func (w *recWatcher) OnLeave(n string) {
	w.rec("leave", n, "", "")
	if w.inner != nil {
		w.inner.OnLeave(n)
	}
}
func (w *recWatcher) OnReachable(n string) {
	w.rec("reach", n, "", "")
	if w.inner != nil {
		w.inner.OnReachable(n)
	}
}
func (w *recWatcher) OnUnreachable(n string) {
	w.rec("unreach", n, "", "")
	if w.inner != nil {
		w.inner.OnUnreachable(n)
	}
}
func (w *recWatcher) OnUpsertKey(n, k, v string) {
	w.rec("up", n, k, v)
	if w.inner != nil {
		w.inner.OnUpsertKey(n, k, v)
	}
}
func (w *recWatcher) OnDeleteKey(n, k string) {
	w.rec("del", n, k, "")
	if w.inner != nil {
		w.inner.OnDeleteKey(n, k)
	}
}
func (w *recWatcher) OnExpired(n string) {
	w.rec("expired", n, "", "")
	if w.inner != nil {
		w.inner.OnExpired(n)
	}
}

// Node is one real gossip node and, optionally, the real syncer and routing
// table fed by it.
type Node struct {
	ID     string
	G      *gossip.VerifNode
	Det    *gossip.VerifDetector
	Alive  bool
	Stream net.Listener

	Routing *cluster.State
	Syncer  *sgossip.VerifSyncer
}

type Options struct {
	Nodes     []string
	Routing   bool // attach the real syncer + cluster.State to every node
	Streams   bool // open real TCP stream listeners (join/leave)
	InitKnown bool
	Endpoints []string // endpoint ids used for LookupEndpoint snapshots
	MaxSlots  int      // datagrams in flight; a datagram that finds no free slot is lost (default 64)
}

type Cluster struct {
	Opt    Options
	Nodes  map[string]*Node
	Order  []string
	addrOf map[string]string
	idOf   map[string]string

	outbox []rawPkt
	events []Event
	evMu   sync.Mutex

	Slots map[int]*Msg

	// last logged projection per node, to log only what changed
	lastViews map[string]string
	lastArmq  map[string]string
	lastSusp  map[string]string
	suspSet   map[string]map[string]bool
	slack     int

	// statistics
	Datagrams    int
	MaxDatagram  int
	OverBudget   []string
	DecodeErrors int
}

func NewCluster(opt Options) (*Cluster, error) {
	c := &Cluster{
		Opt:       opt,
		Nodes:     make(map[string]*Node),
		addrOf:    make(map[string]string),
		idOf:      make(map[string]string),
		Slots:     make(map[int]*Msg),
		lastViews: make(map[string]string),
		lastArmq:  make(map[string]string),
		lastSusp:  make(map[string]string),
		suspSet:   make(map[string]map[string]bool),
	}
	for i, id := range opt.Nodes {
		addr := fmt.Sprintf("127.0.0.1:%d", 20001+i)
		var ln net.Listener
		if opt.Streams {
			var err error
			ln, err = lendListener(i)
			if err != nil {
				return nil, err
			}
			addr = ln.Addr().String()
		}
		c.addrOf[id] = addr
		c.idOf[addr] = id
		c.Order = append(c.Order, id)
		n := &Node{ID: id, Det: gossip.NewVerifDetector(), Alive: true, Stream: ln}
		w := &recWatcher{c: c, node: id}
		if opt.Routing {
			n.Routing = cluster.NewState(&cluster.Node{
				ID:        id,
				ProxyAddr: "proxy-" + id,
				AdminAddr: "admin-" + id,
			}, log.NewNopLogger())
			n.Syncer = sgossip.VerifNewSyncer(n.Routing)
			w.inner = n.Syncer.Watcher()
		}
		n.G = gossip.NewVerifNode(id, addr, BigPacket, &captureConn{c: c, node: id}, n.Det, w)
		if ln != nil {
			n.G.ServeStream(ln, 5*time.Second)
		}
		c.Nodes[id] = n
		c.suspSet[id] = make(map[string]bool)
	}
	if opt.Routing {
		for _, id := range c.Order {
			c.Nodes[id].Syncer.Sync(c.Nodes[id].G)
		}
	}
	if opt.InitKnown {
		for _, o := range c.Order {
			var dig []gossip.VerifDigestEntry
			for _, n := range c.Order {
				if n != o {
					dig = append(dig, gossip.VerifDigestEntry{ID: n, Addr: c.addrOf[n]})
				}
			}
			c.Nodes[o].G.ApplyDigest(dig)
		}
	}
	return c, nil
}

func (c *Cluster) Close() {
	for _, n := range c.Nodes {
		if n.Stream != nil {
			n.Stream.Close()
		}
	}
}

func (c *Cluster) Addr(id string) string { return c.addrOf[id] }

// ---- projection of the implementation's state ------------------------------

func capInt(v uint64) int {
	if v > 1000000000 {
		return 1000000000
	}
	return int(v)
}

func ProjEntry(e gossip.Entry) Ent {
	out := Ent{K: e.Key, V: e.Value, Ver: capInt(e.Version), Del: e.Deleted, Int: e.Internal}
	if e.Internal && e.Key == gossip.VerifCompactKey {
		cv, err := strconv.ParseUint(e.Value, 10, 64)
		if err != nil {
			out.Cv = -1
		} else {
			out.Cv = capInt(cv)
			out.V = ""
		}
	}
	return out
}

func projEntries(es []gossip.Entry) []Ent {
	out := make([]Ent, 0, len(es))
	for _, e := range es {
		out = append(out, ProjEntry(e))
	}
	return out
}

func (c *Cluster) projViews(o string) ([]View, []string) {
	n := c.Nodes[o]
	metas := n.G.Nodes()
	sort.Slice(metas, func(i, j int) bool { return metas[i].ID < metas[j].ID })
	var views []View
	type armed struct {
		id string
		t  time.Time
	}
	var arm []armed
	for _, m := range metas {
		ns, ok := n.G.Node(m.ID)
		if !ok {
			continue
		}
		views = append(views, View{
			N: m.ID, Ver: capInt(ns.Version), Left: ns.Left, Unreach: ns.Unreachable,
			Ents: projEntries(ns.Entries),
		})
		if !ns.Expiry.IsZero() {
			arm = append(arm, armed{m.ID, ns.Expiry})
		}
	}
	sort.SliceStable(arm, func(i, j int) bool { return arm[i].t.Before(arm[j].t) })
	q := make([]string, 0, len(arm))
	for _, a := range arm {
		q = append(q, a.id)
	}
	return views, q
}

func (c *Cluster) projTable(o string) RTable {
	n := c.Nodes[o]
	t := RTable{O: o, Nodes: []RNode{}, Pending: []RNode{}, Lookup: []EpLookup{}}
	if n.Routing == nil {
		return t
	}
	conv := func(x *cluster.Node) RNode {
		r := RNode{N: x.ID, Status: string(x.Status), Proxy: x.ProxyAddr, Admin: x.AdminAddr, Eps: []EpCnt{}}
		var es []string
		for e := range x.Endpoints {
			es = append(es, e)
		}
		sort.Strings(es)
		for _, e := range es {
			r.Eps = append(r.Eps, EpCnt{E: "endpoint:" + e, C: x.Endpoints[e]})
		}
		return r
	}
	nodes := n.Routing.Nodes()
	sort.Slice(nodes, func(i, j int) bool { return nodes[i].ID < nodes[j].ID })
	for _, x := range nodes {
		if x.ID == o {
			continue // the table of the specification holds the remote nodes only
		}
		t.Nodes = append(t.Nodes, conv(x))
	}
	pend := n.Syncer.Pending()
	var ids []string
	for id := range pend {
		ids = append(ids, id)
	}
	sort.Strings(ids)
	for _, id := range ids {
		t.Pending = append(t.Pending, conv(pend[id]))
	}
	for _, e := range c.Opt.Endpoints {
		r, ok := n.Routing.LookupEndpoint(e)
		l := EpLookup{E: "endpoint:" + e}
		if ok {
			l.N = r.ID
		}
		t.Lookup = append(t.Lookup, l)
	}
	return t
}

func projDigest(d []gossip.VerifDigestEntry) []DigEnt {
	out := make([]DigEnt, 0, len(d))
	for _, e := range d {
		out = append(out, DigEnt{ID: e.ID, Ver: capInt(e.Version), Left: e.Left})
	}
	return out
}

func projDelta(d []gossip.VerifDeltaEntry) []DeltaNode {
	out := make([]DeltaNode, 0, len(d))
	for _, e := range d {
		out = append(out, DeltaNode{ID: e.ID, Ents: projEntries(e.Entries)})
	}
	return out
}

func flatLen(d []DeltaNode) int {
	n := 0
	for _, e := range d {
		n += 1 + len(e.Ents)
	}
	return n
}

// Finish fills the post-state into the step: the views of the nodes whose
// projection changed, arming queues, suspicion sets, network and events.
func (c *Cluster) Finish(s *Step, full bool) {
	if s.Cmd == "" {
		s.Cmd = rawCmd(s)
	}
	s.Chg = []NodeViews{}
	s.Armq = []Queue{}
	s.Susp = []Queue{}
	s.Alive = []string{}
	s.Tables = []RTable{}
	for _, o := range c.Order {
		n := c.Nodes[o]
		if n.Alive {
			s.Alive = append(s.Alive, o)
		}
		views, q := c.projViews(o)
		key := fmt.Sprintf("%v", views)
		if full || c.lastViews[o] != key {
			s.Chg = append(s.Chg, NodeViews{O: o, Views: views})
			c.lastViews[o] = key
		}
		qk := strings.Join(q, ",")
		if full || c.lastArmq[o] != qk {
			s.Armq = append(s.Armq, Queue{O: o, Q: q})
			c.lastArmq[o] = qk
		}
		var ss []string
		for id, b := range c.suspSet[o] {
			if b {
				ss = append(ss, id)
			}
		}
		sort.Strings(ss)
		sk := strings.Join(ss, ",")
		if full || c.lastSusp[o] != sk {
			if ss == nil {
				ss = []string{}
			}
			s.Susp = append(s.Susp, Queue{O: o, Q: ss})
			c.lastSusp[o] = sk
		}
		if c.Opt.Routing {
			s.Tables = append(s.Tables, c.projTable(o))
		}
	}
	s.Net = []Msg{}
	var slots []int
	for k := range c.Slots {
		slots = append(slots, k)
	}
	sort.Ints(slots)
	for _, k := range slots {
		s.Net = append(s.Net, *c.Slots[k])
	}
	s.Evts = c.events
	if s.Evts == nil {
		s.Evts = []Event{}
	}
	c.events = nil
	if s.Dseq == nil {
		s.Dseq = []DigEnt{}
	}
	if s.Rseq == nil {
		s.Rseq = []DigEnt{}
	}
	if s.Fseq == nil {
		s.Fseq = []string{}
	}
	if s.Ord == nil {
		s.Ord = []string{}
	}
	if s.Reports == nil {
		s.Reports = []string{}
	}
	if s.PktLens == nil {
		s.PktLens = []int{}
	}
	if s.Cum == nil {
		s.Cum = []int{}
	}
	if s.D2 == nil {
		s.D2 = []DeltaNode{}
	}
	if s.Dec == nil {
		s.Dec = []DeltaNode{}
	}
	if s.Dig2 == nil {
		s.Dig2 = []DigEnt{}
	}
	if s.DigDec == nil {
		s.DigDec = []DigEnt{}
	}
}

// ---- network ---------------------------------------------------------------

func (c *Cluster) maxSlots() int {
	if c.Opt.MaxSlots > 0 {
		return c.Opt.MaxSlots
	}
	return 64
}

func (c *Cluster) lowestFree() int {
	for i := 1; ; i++ {
		if _, ok := c.Slots[i]; !ok {
			return i
		}
	}
}

// flushOutbox decodes the datagrams the last call emitted with the real
// decoder and puts them into the lowest free slots, in emission order. ans is
// the digest the emitted delta answers (a ghost the datagram does not carry).
// Empty deltas are left out of the network unless sendEmpty.
func (c *Cluster) flushOutbox(s *Step, ans []DigEnt, sendEmpty bool, pktMax int) {
	for _, p := range c.outbox {
		c.Datagrams++
		if len(p.b) > c.MaxDatagram {
			c.MaxDatagram = len(p.b)
		}
		s.PktLens = append(s.PktLens, len(p.b))
		if pktMax > 0 && len(p.b) > pktMax {
			c.OverBudget = append(c.OverBudget, fmt.Sprintf("%s: datagram of %d bytes exceeds max packet size %d", s.Op, len(p.b), pktMax))
		}
		dec, err := gossip.VerifDecodePacket(p.b)
		if err != nil {
			c.DecodeErrors++
			s.Note += "undecodable datagram emitted: " + err.Error() + ";"
			continue
		}
		to := c.idOf[p.toAddr]
		m := &Msg{From: p.from, To: to, bytes: p.b, Dig: []DigEnt{}, D: []DeltaNode{}, Ans: []DigEnt{}}
		if dec.Type == "digest" {
			m.T = "dig"
			m.Req = dec.Request
			m.Dig = projDigest(dec.Digest)
			if dec.Request {
				s.Dseq = m.Dig
			} else {
				s.Rseq = m.Dig
			}
		} else {
			m.T = "delta"
			m.D = projDelta(dec.Delta)
			for _, de := range dec.Delta {
				for i := 1; i < len(de.Entries); i++ {
					if de.Entries[i-1].Version >= de.Entries[i].Version {
						s.Unord++
						break
					}
				}
			}
			if ans != nil {
				m.Ans = ans
			}
			s.Cut = flatLen(m.D)
			if len(m.D) == 0 && !sendEmpty {
				continue
			}
		}
		m.Slot = c.lowestFree()
		if m.Slot > c.maxSlots() {
			continue // no free slot: the datagram is lost at once (as in the specification)
		}
		c.Slots[m.Slot] = m
	}
	c.outbox = nil
}

// ---- operations (one per spec action) --------------------------------------

func (c *Cluster) live(id string) *Node {
	n, ok := c.Nodes[id]
	if !ok || !n.Alive {
		return nil
	}
	return n
}

func (c *Cluster) Reset() Step {
	s := Step{Op: "Reset"}
	c.Finish(&s, true)
	return s
}

func (c *Cluster) Upsert(n, k, v string) *Step {
	x := c.live(n)
	if x == nil {
		return nil
	}
	if x.Routing != nil && strings.HasPrefix(k, "endpoint:") {
		return nil
	}
	x.G.UpsertLocal(k, v)
	s := &Step{Op: "UpsertLocal", N: n, K: k, V: v}
	c.Finish(s, false)
	return s
}

func (c *Cluster) Delete(n, k string) *Step {
	x := c.live(n)
	if x == nil {
		return nil
	}
	x.G.DeleteLocal(k)
	s := &Step{Op: "DeleteLocal", N: n, K: k}
	c.Finish(s, false)
	return s
}

// AddEndpoint / RemoveEndpoint drive the owner's routing state; the real
// syncer publishes the change into the gossip state.
func (c *Cluster) AddEndpoint(n, e string) *Step {
	x := c.live(n)
	if x == nil || x.Routing == nil {
		return nil
	}
	x.Routing.AddLocalEndpoint(e)
	cnt := x.Routing.LocalEndpointListeners(e)
	s := &Step{Op: "UpsertLocal", N: n, K: "endpoint:" + e, V: strconv.Itoa(cnt)}
	s.Cmd = fmt.Sprintf(`["AddEndpoint",%q,%q]`, n, e)
	c.Finish(s, false)
	return s
}

func (c *Cluster) RemoveEndpoint(n, e string) *Step {
	x := c.live(n)
	if x == nil || x.Routing == nil {
		return nil
	}
	if x.Routing.LocalEndpointListeners(e) == 0 {
		return nil
	}
	x.Routing.RemoveLocalEndpoint(e)
	cnt := x.Routing.LocalEndpointListeners(e)
	var s *Step
	if cnt > 0 {
		s = &Step{Op: "UpsertLocal", N: n, K: "endpoint:" + e, V: strconv.Itoa(cnt)}
	} else {
		s = &Step{Op: "DeleteLocal", N: n, K: "endpoint:" + e}
	}
	s.Cmd = fmt.Sprintf(`["RemoveEndpoint",%q,%q]`, n, e)
	c.Finish(s, false)
	return s
}

func (c *Cluster) LeaveLocal(n string) *Step {
	x := c.live(n)
	if x == nil {
		return nil
	}
	x.G.LeaveLocal()
	s := &Step{Op: "LeaveLocal", N: n}
	c.Finish(s, false)
	return s
}

func (c *Cluster) Compact(n string, thr int) *Step {
	x := c.live(n)
	if x == nil {
		return nil
	}
	if len(x.G.LocalNode().Entries) == 0 {
		return nil // CompactLocal indexes entries[-1] on an empty state (outside the listed properties)
	}
	x.G.CompactLocal(thr)
	s := &Step{Op: "CompactLocal", N: n, Thr: thr}
	c.Finish(s, false)
	return s
}

func (c *Cluster) Round(a, b string, pktMax int) *Step {
	x := c.live(a)
	if x == nil || a == b {
		return nil
	}
	if _, ok := c.Nodes[b]; !ok {
		return nil
	}
	// the code only gossips to live or unreachable peers it knows
	ok := false
	for _, m := range append(x.G.LiveNodes(), x.G.UnreachableNodes()...) {
		if m.ID == b {
			ok = true
		}
	}
	if !ok {
		return nil
	}
	if pktMax <= 0 {
		pktMax = BigPacket
	}
	x.G.SetMaxPacketSize(pktMax)
	s := &Step{Op: "StartRound", A: a, B: b, PktMax: pktMax}
	if err := x.G.GossipTo(c.addrOf[b]); err != nil {
		s.Err = err.Error()
	}
	c.flushOutbox(s, nil, false, pktMax)
	c.Finish(s, false)
	return s
}

// GossipRound runs the code's own periodic round on a (gossipRound: one random live peer and one random
// unreachable peer) and reports whom it addressed; the datagrams are dropped (what a digest request does is
// StartRound's business).
func (c *Cluster) GossipRound(a string) *Step {
	x := c.live(a)
	if x == nil {
		return nil
	}
	c.outbox = nil
	s := &Step{Op: "GossipRound", A: a}
	if err := x.G.GossipRound(); err != nil {
		s.Err = err.Error()
	}
	for _, p := range c.outbox {
		s.Fseq = append(s.Fseq, c.idOf[p.toAddr])
	}
	c.outbox = nil
	c.Finish(s, false)
	return s
}

// SelectionStats: rounds periodic rounds of a; the last step lists every peer that was addressed at least once.
func (c *Cluster) SelectionStats(a string, rounds int, emit func(*Step)) {
	if c.live(a) == nil {
		return
	}
	chosen := map[string]bool{}
	for i := 0; i < rounds; i++ {
		s := c.GossipRound(a)
		for _, t := range s.Fseq {
			chosen[t] = true
		}
		emit(s)
	}
	s := &Step{Op: "SelectionEnd", A: a, Kx: rounds}
	for t := range chosen {
		s.Fseq = append(s.Fseq, t)
	}
	sort.Strings(s.Fseq)
	c.Finish(s, false)
	emit(s)
}

// RecvDigest delivers the digest datagram in slot. cut < 0 means no
// truncation; otherwise the responder's maximum packet size is chosen so that
// exactly min(cut, len) elements of its delta fit. pktMax > 0 overrides.
func (c *Cluster) RecvDigest(slot int, keep bool, cut int, pktMax int, sendEmpty bool) *Step {
	m, ok := c.Slots[slot]
	if !ok || m.T != "dig" {
		return nil
	}
	x := c.live(m.To)
	if x == nil {
		return nil
	}
	dec, err := gossip.VerifDecodePacket(m.bytes)
	if err != nil {
		return nil
	}
	max := BigPacket
	if pktMax > 0 {
		max = pktMax
	} else if cut >= 0 {
		d := x.G.DeltaFor(dec.Digest, false)
		hdr, cum := gossip.VerifDeltaSizes(m.To, c.addrOf[m.To], d)
		if cut < len(cum) {
			if cut == 0 {
				max = hdr
			} else {
				max = cum[cut-1]
			}
			// every other time the largest size that still cuts at the same element: the packet then has
			// room left that must stay unused (an encoder that carries on after the element that did not
			// fit would fill it)
			c.slack++
			if c.slack%2 == 0 && cum[cut]-1 > max {
				max = cum[cut] - 1
			}
		}
	}
	x.G.SetMaxPacketSize(max)
	s := &Step{Op: "RecvDigest", Slot: slot, Keep: keep, SendEmpty: sendEmpty, PktMax: max}
	if !keep {
		delete(c.Slots, slot)
	}
	if err := x.G.HandlePacket(m.bytes); err != nil {
		s.Err = err.Error()
	}
	c.flushOutbox(s, m.Dig, sendEmpty, max)
	rep, _ := x.Det.Drain()
	s.Reports = rep
	c.Finish(s, false)
	return s
}

func (c *Cluster) RecvDelta(slot int, keep bool) *Step {
	m, ok := c.Slots[slot]
	if !ok || m.T != "delta" {
		return nil
	}
	x := c.live(m.To)
	if x == nil {
		return nil
	}
	s := &Step{Op: "RecvDelta", Slot: slot, Keep: keep}
	if !keep {
		delete(c.Slots, slot)
	}
	if err := x.G.HandlePacket(m.bytes); err != nil {
		s.Err = err.Error()
	}
	c.flushOutbox(s, nil, false, 0)
	rep, _ := x.Det.Drain()
	s.Reports = rep
	c.Finish(s, false)
	return s
}

func (c *Cluster) Lose(slot int) *Step {
	if _, ok := c.Slots[slot]; !ok {
		return nil
	}
	delete(c.Slots, slot)
	s := &Step{Op: "Lose", Slot: slot}
	c.Finish(s, false)
	return s
}

func (c *Cluster) Join(a, b string) *Step {
	x, y := c.live(a), c.live(b)
	if x == nil || y == nil || a == b || y.Stream == nil {
		return nil
	}
	s := &Step{Op: "JoinStream", A: a, B: b}
	s.Dseq = projDigest(x.G.Digest())
	// the order in which b will append the nodes missing from a's digest is
	// b's map order; it is observable only through the events, so it is left
	// to the trace spec (any order is accepted)
	if _, err := x.G.JoinAddr(c.addrOf[b]); err != nil {
		s.Err = err.Error()
	}
	c.Finish(s, false)
	return s
}

func (c *Cluster) LeaveNotify(a, b string) *Step {
	x, y := c.live(a), c.live(b)
	if x == nil || y == nil || a == b || y.Stream == nil {
		return nil
	}
	s := &Step{Op: "LeaveStream", A: a, B: b}
	if err := x.G.LeaveAddr(c.addrOf[b]); err != nil {
		s.Err = err.Error()
	}
	c.Finish(s, false)
	return s
}

func (c *Cluster) Suspect(o, n string, b bool) *Step {
	x := c.live(o)
	if x == nil || o == n {
		return nil
	}
	if c.suspSet[o][n] == b {
		return nil
	}
	if b {
		x.Det.SetLevel(n, 100)
	} else {
		x.Det.SetLevel(n, 0)
	}
	c.suspSet[o][n] = b
	s := &Step{Op: "SetSuspect", A: o, N: n, Flag: b}
	c.Finish(s, false)
	return s
}

func (c *Cluster) Liveness(o string) *Step {
	x := c.live(o)
	if x == nil {
		return nil
	}
	x.G.UpdateLiveness(float64(gossip.VerifSuspicionThreshold))
	s := &Step{Op: "UpdateLiveness", A: o}
	c.Finish(s, false)
	for _, e := range s.Evts {
		s.Ord = append(s.Ord, e.N)
	}
	return s
}

// Expire makes the first k armed views of o due and runs the expiry sweep.
func (c *Cluster) Expire(o string, k int) *Step {
	x := c.live(o)
	if x == nil || k <= 0 {
		return nil
	}
	var exp []time.Time
	for _, m := range x.G.Nodes() {
		if !m.Expiry.IsZero() {
			exp = append(exp, m.Expiry)
		}
	}
	if len(exp) == 0 {
		return nil
	}
	sort.Slice(exp, func(i, j int) bool { return exp[i].Before(exp[j]) })
	if k > len(exp) {
		k = len(exp)
	}
	t := exp[k-1].Add(time.Nanosecond)
	x.G.RemoveExpiredAt(t)
	_, removed := x.Det.Drain()
	for _, id := range removed {
		c.suspSet[o][id] = false
	}
	s := &Step{Op: "RemoveExpired", A: o, Thr: k} // thr = number of views whose deadline has passed
	c.Finish(s, false)
	for _, e := range s.Evts {
		s.Ord = append(s.Ord, e.N)
	}
	s.Kx = len(s.Ord)
	s.Cmd = rawCmd(s)
	return s
}

// RaceExpiry: o holds a view of n whose expiry is armed (n is considered unreachable) although n is alive. The
// expiry sweep of o (RemoveExpiredAt) runs in one goroutine while another keeps applying a delta with n's own
// state, as incoming gossip would: whichever way the two interleave, afterwards the gossip state and the syncer
// agree about n (known and tracked, or forgotten by both). rounds sweeps are raced; the step reports the last.
func (c *Cluster) RaceExpiry(o, n string) *Step {
	x, y := c.live(o), c.live(n)
	if x == nil || y == nil || o == n {
		return nil
	}
	var exp time.Time
	for _, m := range x.G.Nodes() {
		if m.ID == n {
			exp = m.Expiry
		}
	}
	if exp.IsZero() {
		return nil
	}
	own := y.G.LocalNode()
	d := []gossip.VerifDeltaEntry{{ID: n, Addr: c.addrOf[n], Entries: own.Entries}}
	stop, done := make(chan struct{}), make(chan struct{})
	go func() {
		defer close(done)
		for {
			select {
			case <-stop:
				return
			default:
			}
			x.G.ApplyDelta(d)
		}
	}()
	time.Sleep(200 * time.Microsecond)
	x.G.RemoveExpiredAt(exp.Add(time.Nanosecond))
	time.Sleep(200 * time.Microsecond)
	close(stop)
	<-done
	_, removed := x.Det.Drain()
	for _, id := range removed {
		c.suspSet[o][id] = false
	}
	s := &Step{Op: "RaceExpiry", A: o, B: n}
	c.Finish(s, false)
	for _, e := range s.Evts {
		if e.T == "expired" {
			s.Ord = append(s.Ord, e.N)
		}
	}
	s.Kx = len(s.Ord)
	s.Cmd = rawCmd(s)
	return s
}

func (c *Cluster) Crash(n string) *Step {
	x := c.live(n)
	if x == nil {
		return nil
	}
	x.Alive = false
	if x.Stream != nil {
		x.Stream.Close()
	}
	s := &Step{Op: "Crash", N: n}
	c.Finish(s, false)
	return s
}

// Hostile feeds arbitrary bytes to o's packet handler.
func (c *Cluster) Hostile(o string, b []byte, note string) *Step {
	x := c.live(o)
	if x == nil {
		return nil
	}
	x.G.SetMaxPacketSize(BigPacket)
	s := &Step{Op: "Hostile", A: o, Note: note}
	s.Cmd = fmt.Sprintf(`["Hostile",%q,"%x"]`, o, b)
	if err := x.G.HandlePacket(b); err != nil {
		s.Err = err.Error()
	}
	// whatever the node answered is dropped: it is addressed to the attacker
	c.outbox = nil
	x.Det.Drain()
	c.Finish(s, false)
	return s
}

// SlotBytes returns the raw datagram in a slot.
func (c *Cluster) SlotBytes(slot int) []byte {
	if m, ok := c.Slots[slot]; ok {
		return m.bytes
	}
	return nil
}

// rawCmd is the call that reproduces the step (replay files are made of these).
func rawCmd(s *Step) string {
	var c []interface{}
	switch s.Op {
	case "UpsertLocal":
		c = []interface{}{"UpsertLocal", s.N, s.K, s.V}
	case "DeleteLocal":
		c = []interface{}{"DeleteLocal", s.N, s.K}
	case "LeaveLocal":
		c = []interface{}{"LeaveLocal", s.N}
	case "CompactLocal":
		c = []interface{}{"CompactLocal", s.N, s.Thr}
	case "StartRound":
		c = []interface{}{"StartRound", s.A, s.B, s.PktMax}
	case "RecvDigest":
		c = []interface{}{"RecvDigest", s.Slot, s.Keep, s.PktMax, s.SendEmpty}
	case "RecvDelta":
		c = []interface{}{"RecvDelta", s.Slot, s.Keep}
	case "Lose":
		c = []interface{}{"Lose", s.Slot}
	case "JoinStream":
		c = []interface{}{"JoinStream", s.A, s.B}
	case "LeaveStream":
		c = []interface{}{"LeaveStream", s.A, s.B}
	case "SetSuspect":
		c = []interface{}{"SetSuspect", s.A, s.N, s.Flag}
	case "UpdateLiveness":
		c = []interface{}{"UpdateLiveness", s.A}
	case "RemoveExpired":
		c = []interface{}{"RemoveExpired", s.A, s.Kx}
	case "Crash":
		c = []interface{}{"Crash", s.N}
	case "GossipRound":
		c = []interface{}{"GossipRound", s.A}
	case "SelectionEnd":
		c = []interface{}{"SelectionStats", s.A, s.Kx}
	default:
		c = []interface{}{s.Op}
	}
	b, _ := json.Marshal(c)
	return string(b)
}
