package gsim

import (
	"fmt"

	"github.com/andydunstall/piko/pkg/gossip"
)

// MinPacket returns the smallest maximum packet size with which every entry
// currently held by a live node still fits into a delta datagram of its own
// (packet header + node header + that entry), and a digest header fits.
func (c *Cluster) MinPacket() int {
	return c.minPacket(true)
}

// MinEntryPacket: as MinPacket, without requiring that a whole digest fits.
func (c *Cluster) MinEntryPacket() int {
	return c.minPacket(false)
}

func (c *Cluster) minPacket(fullDigest bool) int {
	min := 0
	for _, o := range c.Order {
		n := c.Nodes[o]
		if !n.Alive {
			continue
		}
		for _, m := range n.G.Nodes() {
			ns, ok := n.G.Node(m.ID)
			if !ok {
				continue
			}
			for _, e := range ns.Entries {
				_, cum := gossip.VerifDeltaSizes(o, c.addrOf[o], []gossip.VerifDeltaEntry{
					{ID: m.ID, Addr: m.Addr, Entries: []gossip.Entry{e}},
				})
				if cum[len(cum)-1] > min {
					min = cum[len(cum)-1]
				}
			}
		}
		// the whole digest must fit: the code shuffles a digest that does not fit and sends a random part of it,
		// and a sweep in which nothing changed would then not mean that nothing is outstanding. Every node may
		// come to know every node, so the size is that of a digest naming them all.
		if !fullDigest {
			b, err := gossip.VerifEncodeDigest(o, c.addrOf[o], true, nil, 1<<30)
			if err == nil && len(b) > min {
				min = len(b)
			}
			continue
		}
		dig := n.G.Digest()
		seen := map[string]bool{}
		for _, e := range dig {
			seen[e.ID] = true
		}
		for _, id := range c.Order {
			if !seen[id] {
				dig = append(dig, gossip.VerifDigestEntry{ID: id, Addr: c.addrOf[id], Version: 1 << 40})
			}
		}
		for i := range dig {
			dig[i].Version = 1 << 40 // versions grow during the closure: allow for the widest encoding
		}
		b, err := gossip.VerifEncodeDigest(o, c.addrOf[o], true, dig, 1<<30)
		if err == nil && len(b) > min {
			min = len(b)
		}
	}
	return min
}

func (c *Cluster) fingerprint() string {
	s := ""
	for _, o := range c.Order {
		v, _ := c.projViews(o)
		s += fmt.Sprintf("%s:%v;", o, v)
	}
	return s
}

// Drain delivers everything in flight (lowest slot first) until the network is empty.
func (c *Cluster) Drain(pktMax int, emit func(*Step)) {
	for i := 0; i < 200 && len(c.Slots) > 0; i++ {
		slot := 0
		for k := range c.Slots {
			if slot == 0 || k < slot {
				slot = k
			}
		}
		m := c.Slots[slot]
		if c.live(m.To) == nil {
			emit(c.Lose(slot))
			continue
		}
		if m.T == "dig" {
			emit(c.RecvDigest(slot, false, -1, pktMax, false))
		} else {
			emit(c.RecvDelta(slot, false))
		}
	}
}

// DigestPacket returns the largest maximum packet size with which a digest request of any live node carries
// exactly k of the node's digest entries (the code then sends a random k of them), and whether that really
// truncates (k smaller than the number of entries).
func (c *Cluster) DigestPacket(k int) (int, bool) {
	size, cuts := 0, false
	for _, o := range c.Order {
		n := c.Nodes[o]
		if !n.Alive {
			continue
		}
		dig := n.G.Digest()
		for i := range dig {
			dig[i].Version = 1 << 40
		}
		if len(dig) > k {
			cuts = true
		}
		if len(dig) < k+1 {
			continue
		}
		// the size of k+1 entries minus one byte holds k entries and no more
		b, err := gossip.VerifEncodeDigest(o, c.addrOf[o], true, dig[:k+1], 1<<30)
		if err == nil && (size == 0 || len(b)-1 < size) {
			size = len(b) - 1
		}
	}
	return size, cuts && size > 0
}

// Sweeps runs n fair sweeps with a packet size that cuts every digest to k entries (whichever k the code picks
// at random each time) and then claims convergence: with truncated digests "a sweep changed nothing" does not
// mean that nothing is outstanding, so no fixpoint is looked for; n is chosen so that on code that picks the
// entries at random the chance of a node never being asked about is negligible.
func (c *Cluster) Sweeps(k int, n int, emit func(*Step)) {
	pktMax, cuts := c.DigestPacket(k)
	if !cuts {
		return
	}
	if m := c.MinEntryPacket(); m > pktMax {
		return // an entry would not fit: not what this scenario is about (F3)
	}
	c.Drain(pktMax, emit)
	for i := 0; i < n; i++ {
		for _, a := range c.Order {
			for _, b := range c.Order {
				if a == b || c.live(a) == nil || c.live(b) == nil {
					continue
				}
				s := c.Round(a, b, pktMax)
				if s == nil {
					continue
				}
				emit(s)
				c.Drain(pktMax, emit)
			}
		}
	}
	end := &Step{Op: "ClosureEnd", Kx: n, Flag: true, PktMax: 0, Thr: pktMax}
	end.Cmd = fmt.Sprintf(`["Sweeps",%d,%d]`, k, n)
	c.Finish(end, false)
	emit(end)
}

// Closure runs fair sweeps (every ordered pair of live nodes performs a full
// push-pull round, nothing is lost) until a whole sweep changes nothing, with
// the given maximum packet size. It ends with a ClosureEnd step: kx = sweeps,
// flag = a fixpoint was reached.
func (c *Cluster) Closure(pktMax int, maxSweeps int, emit func(*Step)) {
	c.Drain(pktMax, emit)
	sweeps := 0
	fix := false
	for sweeps < maxSweeps {
		before := c.fingerprint()
		for _, a := range c.Order {
			for _, b := range c.Order {
				if a == b || c.live(a) == nil || c.live(b) == nil {
					continue
				}
				s := c.Round(a, b, pktMax)
				if s == nil {
					continue
				}
				emit(s)
				c.Drain(pktMax, emit)
			}
		}
		sweeps++
		if c.fingerprint() == before {
			fix = true
			break
		}
	}
	end := &Step{Op: "ClosureEnd", Kx: sweeps, Flag: fix, PktMax: 0, Thr: pktMax}
	end.Cmd = fmt.Sprintf(`["Closure",%d,%d]`, pktMax, maxSweeps)
	c.Finish(end, false)
	emit(end)
}

// AutoRounds: n periods in which every live node runs the code's own periodic round (gossipRound: the peers it
// picks itself); every exchange it starts is then carried out in full (StartRound with the chosen peer, nothing
// lost, everything fits). It ends with a ClosureEnd step that claims convergence: n is chosen so that on code
// that keeps addressing every peer it knows (live or unreachable) the chance of a pair never exchanging is
// negligible.
func (c *Cluster) AutoRounds(n int, emit func(*Step)) {
	c.Drain(BigPacket, emit)
	for i := 0; i < n; i++ {
		for _, a := range c.Order {
			if c.live(a) == nil {
				continue
			}
			g := c.GossipRound(a)
			if g == nil {
				continue
			}
			emit(g)
			for _, b := range g.Fseq {
				s := c.Round(a, b, BigPacket)
				if s == nil {
					continue
				}
				emit(s)
				c.Drain(BigPacket, emit)
			}
		}
	}
	end := &Step{Op: "ClosureEnd", Kx: n, Flag: true, PktMax: 0, Thr: BigPacket}
	end.Cmd = fmt.Sprintf(`["AutoRounds",%d]`, n)
	c.Finish(end, false)
	emit(end)
}
