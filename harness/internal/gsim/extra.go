package gsim

import (
	"fmt"
	"net"
	"time"

	"github.com/andydunstall/piko/pkg/gossip"
)

func ProjDelta(d []gossip.VerifDeltaEntry) []DeltaNode { return projDelta(d) }
func ProjDigest(d []gossip.VerifDigestEntry) []DigEnt  { return projDigest(d) }

// Hang is returned (as a panic value) when a call into the gossip code does not
// return within the watchdog period.
type Hang struct{ What string }

func watchdog(what string, d time.Duration, f func()) {
	done := make(chan struct{})
	go func() {
		defer close(done)
		f()
	}()
	select {
	case <-done:
	case <-time.After(d):
		panic(Hang{What: what})
	}
}

// EncodeDeltaStep runs the real encodeDelta with the given maximum packet size
// and the real decoder on its output.
func (c *Cluster) EncodeDeltaStep(nodeID, addr string, d []gossip.VerifDeltaEntry, max int) *Step {
	hdr, cum := gossip.VerifDeltaSizes(nodeID, addr, d)
	s := &Step{Op: "Encode", PktMax: max, Hdr: hdr, Cum: cum, D2: projDelta(d)}
	s.Cmd = `["Encode"]`
	b, err := gossip.VerifEncodeDelta(nodeID, addr, d, max)
	if err != nil {
		s.Err = err.Error()
	} else {
		s.OutLen = len(b)
		dec, derr := gossip.VerifDecodePacket(b)
		if derr != nil {
			s.Note = "undecodable: " + derr.Error()
			s.OutLen = -1
		} else {
			s.Dec = projDelta(dec.Delta)
			if dec.NodeID != nodeID || dec.Addr != addr || dec.Type != "delta" {
				s.Note = "header mismatch"
				s.OutLen = -1
			}
		}
	}
	c.Finish(s, false)
	return s
}

// EncodeDigestStep: the same for encodeDigest. cum holds the cumulative size
// after each digest entry, measured by encoding prefixes with an unlimited budget.
func (c *Cluster) EncodeDigestStep(nodeID, addr string, req bool, d []gossip.VerifDigestEntry, max int) *Step {
	s := &Step{Op: "EncodeDigest", PktMax: max, Dig2: projDigest(d), Flag: req}
	s.Cmd = `["EncodeDigest"]`
	for i := 0; i <= len(d); i++ {
		b, err := gossip.VerifEncodeDigest(nodeID, addr, req, d[:i], 1<<30)
		if err != nil {
			s.Note = "prefix encode failed: " + err.Error()
			break
		}
		if i == 0 {
			s.Hdr = len(b)
		} else {
			s.Cum = append(s.Cum, len(b))
		}
	}
	b, err := gossip.VerifEncodeDigest(nodeID, addr, req, d, max)
	if err != nil {
		s.Err = err.Error()
	} else {
		s.OutLen = len(b)
		dec, derr := gossip.VerifDecodePacket(b)
		if derr != nil {
			s.Note = "undecodable: " + derr.Error()
			s.OutLen = -1
		} else {
			s.DigDec = projDigest(dec.Digest)
			if dec.NodeID != nodeID || dec.Addr != addr || dec.Type != "digest" || dec.Request != req {
				s.Note = "header mismatch"
				s.OutLen = -1
			}
		}
	}
	c.Finish(s, false)
	return s
}

// HostilePacket feeds arbitrary bytes to o's packet handler under a watchdog.
func (c *Cluster) HostilePacket(o string, b []byte, note string) *Step {
	x := c.live(o)
	if x == nil {
		return nil
	}
	x.G.SetMaxPacketSize(BigPacket)
	s := &Step{Op: "Hostile", A: o, Note: note}
	s.Cmd = fmt.Sprintf(`["Hostile",%q,"%x"]`, o, b)
	watchdog("HandlePacket("+note+")", 10*time.Second, func() {
		if err := x.G.HandlePacket(b); err != nil {
			s.Err = err.Error()
		}
	})
	c.outbox = nil // whatever the node answered goes to the attacker
	x.Det.Drain()
	c.Finish(s, false)
	return s
}

// HostileStream feeds arbitrary bytes to o's stream handler (join / leave) over
// an in-memory connection; the peer then reads whatever is answered and closes.
func (c *Cluster) HostileStream(o string, b []byte, note string) *Step {
	x := c.live(o)
	if x == nil {
		return nil
	}
	s := &Step{Op: "Hostile", A: o, Note: "stream:" + note}
	s.Cmd = fmt.Sprintf(`["HostileStream",%q,"%x"]`, o, b)
	client, server := net.Pipe()
	go func() {
		_ = client.SetDeadline(time.Now().Add(2 * time.Second))
		_, _ = client.Write(b)
		buf := make([]byte, 4096)
		for {
			if _, err := client.Read(buf); err != nil {
				break
			}
		}
		client.Close()
	}()
	watchdog("handleConn("+note+")", 15*time.Second, func() {
		if err := x.G.HandleStream(server, 500*time.Millisecond); err != nil {
			s.Err = err.Error()
		}
	})
	c.outbox = nil
	x.Det.Drain()
	c.Finish(s, false)
	return s
}

// StalledStream: a peer sends a well-formed join request (captured from a real
// node's join) to o and then neither reads the answer nor closes: the handler
// must give up at its stream timeout instead of blocking for as long as the
// peer likes.
func (c *Cluster) StalledStream(o, from string) *Step {
	x, y := c.live(o), c.live(from)
	if x == nil || y == nil || o == from {
		return nil
	}
	// capture the request bytes of a real join
	ln, err := net.Listen("tcp", "127.0.0.1:0")
	if err != nil {
		return nil
	}
	got := make(chan []byte, 1)
	go func() {
		conn, err := ln.Accept()
		if err != nil {
			got <- nil
			return
		}
		defer conn.Close()
		var req []byte
		buf := make([]byte, 65536)
		for {
			_ = conn.SetReadDeadline(time.Now().Add(150 * time.Millisecond))
			n, err := conn.Read(buf)
			req = append(req, buf[:n]...)
			if err != nil {
				break
			}
		}
		got <- req
	}()
	watchdog("JoinAddr(capture)", 15*time.Second, func() { _, _ = y.G.JoinAddr(ln.Addr().String()) })
	req := <-got
	ln.Close()
	if len(req) == 0 {
		return nil
	}
	s := &Step{Op: "Hostile", A: o, Note: "stream:stalled-join"}
	s.Cmd = fmt.Sprintf(`["StalledStream",%q,%q]`, o, from)
	client, server := net.Pipe()
	release := make(chan struct{})
	go func() {
		_, _ = client.Write(req)
		<-release // neither reads nor closes while the handler runs
		client.Close()
	}()
	func() {
		defer close(release)
		watchdog("handleConn(stalled-join)", 3*time.Second, func() {
			if err := x.G.HandleStream(server, 300*time.Millisecond); err != nil {
				s.Err = err.Error()
			}
		})
	}()
	c.outbox = nil
	x.Det.Drain()
	y.Det.Drain()
	c.Finish(s, false)
	return s
}
