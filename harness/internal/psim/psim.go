// Package psim runs real piko server nodes in-process (real sockets on
// loopback, real gossip at a short interval), real upstream listeners from the
// client package, and observes them the way an operator can: through the
// proxy/upstream ports, the admin routes and /metrics.
package psim

import (
	"bytes"
	"context"
	"encoding/json"
	"fmt"
	"io"
	"net"
	"net/http"
	"net/url"
	"sort"
	"strconv"
	"strings"
	"sync"
	"sync/atomic"
	"time"

	"github.com/andydunstall/piko/client"
	"github.com/andydunstall/piko/pkg/auth"
	"github.com/andydunstall/piko/pkg/log"
	"github.com/andydunstall/piko/server"
	"github.com/andydunstall/piko/server/cluster"
	"github.com/andydunstall/piko/server/config"
	"github.com/andydunstall/piko/server/upstream"
)

type NodeOpts struct {
	ID             string
	Join           []string
	Auth           auth.Config // proxy + upstream + admin (unless the specific ones are set)
	ProxyAuth      *auth.Config
	UpstreamAuth   *auth.Config
	AdminAuth      *auth.Config
	Tenants        []config.TenantConfig
	ProxyTimeout   time.Duration
	GossipInterval time.Duration
	GracePeriod    time.Duration
	Rebalance      *config.RebalanceConfig
}

type Node struct {
	ID     string
	Server *server.Server
	Conf   *config.Config
	stopped atomic.Bool
}

func StartNode(o NodeOpts) (*Node, error) {
	conf := config.Default()
	conf.Proxy.BindAddr = "127.0.0.1:0"
	conf.Upstream.BindAddr = "127.0.0.1:0"
	conf.Admin.BindAddr = "127.0.0.1:0"
	conf.Cluster.NodeID = o.ID
	if conf.Cluster.NodeID == "" {
		conf.Cluster.NodeID = cluster.GenerateNodeID()
	}
	conf.Cluster.Join = o.Join
	conf.Cluster.AbortIfJoinFails = false
	conf.Cluster.JoinTimeout = 2 * time.Second
	conf.Cluster.Gossip.BindAddr = "127.0.0.1:0"
	conf.Cluster.Gossip.Interval = 10 * time.Millisecond
	if o.GossipInterval != 0 {
		conf.Cluster.Gossip.Interval = o.GossipInterval
	}
	conf.Proxy.Auth, conf.Upstream.Auth, conf.Admin.Auth = o.Auth, o.Auth, o.Auth
	if o.ProxyAuth != nil {
		conf.Proxy.Auth = *o.ProxyAuth
	}
	if o.UpstreamAuth != nil {
		conf.Upstream.Auth = *o.UpstreamAuth
	}
	if o.AdminAuth != nil {
		conf.Admin.Auth = *o.AdminAuth
	}
	conf.Upstream.Tenants = o.Tenants
	conf.Proxy.AccessLog.Disable = true
	if o.ProxyTimeout != 0 {
		conf.Proxy.Timeout = o.ProxyTimeout
	}
	conf.GracePeriod = 5 * time.Second
	if o.GracePeriod != 0 {
		conf.GracePeriod = o.GracePeriod
	}
	if o.Rebalance != nil {
		conf.Upstream.Rebalance = *o.Rebalance
	}
	s, err := server.NewServer(conf, log.NewNopLogger())
	if err != nil {
		return nil, err
	}
	if err := s.Start(); err != nil {
		return nil, err
	}
	n := &Node{ID: conf.Cluster.NodeID, Server: s, Conf: conf}
	nodesMu.Lock()
	nodesByUpstream[conf.Upstream.AdvertiseAddr] = n
	nodesMu.Unlock()
	return n, nil
}

var (
	nodesMu         sync.Mutex
	nodesByUpstream = map[string]*Node{}
)

// registered: how many upstreams the in-process node behind upstreamAddr has registered for the endpoint
// (-1 if the address is not an in-process node's upstream port, e.g. a relay or another process).
func registered(upstreamAddr, endpoint string) int {
	nodesMu.Lock()
	n := nodesByUpstream[upstreamAddr]
	nodesMu.Unlock()
	if n == nil || n.stopped.Load() {
		return -1
	}
	mgr, ok := n.Server.VerifUpstream().VerifManager().(*upstream.LoadBalancedManager)
	if !ok {
		return -1
	}
	return mgr.Endpoints()[endpoint]
}

// awaitRegistered: client.Upstream.Listen returns before the server has registered the upstream; scenarios
// that go on to send requests wait for the registration.
func awaitRegistered(upstreamAddr, endpoint string, before int) {
	if before < 0 {
		return
	}
	WaitFor(5*time.Second, func() bool { return registered(upstreamAddr, endpoint) > before })
}

func (n *Node) ProxyAddr() string    { return n.Conf.Proxy.AdvertiseAddr }
func (n *Node) UpstreamAddr() string { return n.Conf.Upstream.AdvertiseAddr }
func (n *Node) AdminAddr() string    { return n.Conf.Admin.AdvertiseAddr }
func (n *Node) GossipAddr() string   { return n.Conf.Cluster.Gossip.AdvertiseAddr }

// Stop shuts the node down gracefully; returns how long it took.
func (n *Node) Stop() time.Duration {
	if n.stopped.Swap(true) {
		return 0
	}
	t := time.Now()
	n.Server.Shutdown()
	return time.Since(t)
}

// ---- admin observations ----------------------------------------------------

var HTTP = &http.Client{Timeout: 5 * time.Second, Transport: &http.Transport{DisableKeepAlives: true}}

func GetJSON(addr, path string, token string, out interface{}) (int, error) {
	req, _ := http.NewRequest("GET", "http://"+addr+path, nil)
	if token != "" {
		req.Header.Set("Authorization", "Bearer "+token)
	}
	resp, err := HTTP.Do(req)
	if err != nil {
		return 0, err
	}
	defer resp.Body.Close()
	b, _ := io.ReadAll(resp.Body)
	if out != nil && resp.StatusCode == 200 {
		if err := json.Unmarshal(b, out); err != nil {
			return resp.StatusCode, err
		}
	}
	return resp.StatusCode, nil
}

// UpstreamEndpoints: /status/upstream/endpoints  (endpoint -> registered upstreams)
func (n *Node) UpstreamEndpoints(token string) (map[string]int, error) {
	m := map[string]int{}
	_, err := GetJSON(n.AdminAddr(), "/status/upstream/endpoints", token, &m)
	return m, err
}

type ClusterNode struct {
	ID        string         `json:"id"`
	Status    string         `json:"status"`
	ProxyAddr string         `json:"proxy_addr"`
	AdminAddr string         `json:"admin_addr"`
	Endpoints map[string]int `json:"endpoints"`
	Upstreams int            `json:"upstreams"`
}

// ClusterNodes: the routing table through /status/cluster/nodes/<id>
func (n *Node) ClusterNodes(token string) ([]ClusterNode, error) {
	var metas []struct {
		ID string `json:"id"`
	}
	if _, err := GetJSON(n.AdminAddr(), "/status/cluster/nodes", token, &metas); err != nil {
		return nil, err
	}
	var out []ClusterNode
	for _, m := range metas {
		var full ClusterNode
		if code, err := GetJSON(n.AdminAddr(), "/status/cluster/nodes/"+m.ID, token, &full); err == nil && code == 200 {
			out = append(out, full)
		}
	}
	sort.Slice(out, func(i, j int) bool { return out[i].ID < out[j].ID })
	return out, nil
}

// Metric returns the sum of a counter's samples in /metrics whose line
// contains all of the given label fragments.
func (n *Node) Metric(token, name string, labels ...string) float64 {
	req, _ := http.NewRequest("GET", "http://"+n.AdminAddr()+"/metrics", nil)
	if token != "" {
		req.Header.Set("Authorization", "Bearer "+token)
	}
	resp, err := HTTP.Do(req)
	if err != nil {
		return -1
	}
	defer resp.Body.Close()
	b, _ := io.ReadAll(resp.Body)
	total := 0.0
	for _, line := range strings.Split(string(b), "\n") {
		if !strings.HasPrefix(line, name) {
			continue
		}
		rest := line[len(name):]
		if rest != "" && rest[0] != '{' && rest[0] != ' ' {
			continue
		}
		ok := true
		for _, l := range labels {
			if !strings.Contains(line, l) {
				ok = false
			}
		}
		if !ok {
			continue
		}
		f := strings.Fields(line)
		v, err := strconv.ParseFloat(f[len(f)-1], 64)
		if err == nil {
			total += v
		}
	}
	return total
}

// ---- upstream listeners ------------------------------------------------------

// Stamp is what a stamping upstream answers with.
type Stamp struct {
	Endpoint string              `json:"endpoint"`
	Upstream string              `json:"upstream"`
	Method   string              `json:"method"`
	Path     string              `json:"path"`
	RawQuery string              `json:"raw_query"`
	Host     string              `json:"host"`
	Header   map[string][]string `json:"header"`
	BodyLen  int                 `json:"body_len"`
	BodySum  uint32              `json:"body_sum"`
}

type Upstream struct {
	ID       string
	Endpoint string
	Ln       client.Listener
	srv      *http.Server
	Requests atomic.Int64
	mu       sync.Mutex
	Last     *Stamp
	Behave   func(w http.ResponseWriter, r *http.Request, st *Stamp) bool // optional; returns true if it answered
}

func Sum(b []byte) uint32 {
	var s uint32 = 2166136261
	for _, c := range b {
		s ^= uint32(c)
		s *= 16777619
	}
	return s
}

// Listen registers a stamping HTTP upstream for the endpoint on the node's upstream port.
func Listen(ctx context.Context, upstreamAddr, endpoint, id, token, tenant string) (*Upstream, error) {
	up := &client.Upstream{
		URL:                 &url.URL{Scheme: "http", Host: upstreamAddr},
		Token:               token,
		TenantID:            tenant,
		MinReconnectBackoff: 20 * time.Millisecond,
		MaxReconnectBackoff: 200 * time.Millisecond,
	}
	before := registered(upstreamAddr, endpoint)
	ln, err := up.Listen(ctx, endpoint)
	if err != nil {
		return nil, err
	}
	awaitRegistered(upstreamAddr, endpoint, before)
	u := &Upstream{ID: id, Endpoint: endpoint, Ln: ln}
	u.srv = &http.Server{Handler: http.HandlerFunc(func(w http.ResponseWriter, r *http.Request) {
		u.Requests.Add(1)
		body, _ := io.ReadAll(r.Body)
		st := &Stamp{Endpoint: endpoint, Upstream: id, Method: r.Method, Path: r.URL.EscapedPath(),
			RawQuery: r.URL.RawQuery, Host: r.Host, Header: r.Header, BodyLen: len(body), BodySum: Sum(body)}
		u.mu.Lock()
		u.Last = st
		u.mu.Unlock()
		if u.Behave != nil && u.Behave(w, r, st) {
			return
		}
		w.Header().Set("Content-Type", "application/json")
		w.Header().Set("X-Stamp-Endpoint", endpoint)
		w.Header().Set("X-Stamp-Upstream", id)
		_ = json.NewEncoder(w).Encode(st)
	})}
	go func() { _ = u.srv.Serve(ln) }()
	return u, nil
}

// Shutdown closes the connection to the server (client close).
func (u *Upstream) Shutdown() {
	_ = u.Ln.Shutdown()
	_ = u.srv.Close()
}

// Request sends a request to a proxy port. mode: "host" (first Host label), "header" (x-piko-endpoint).
type Reply struct {
	Status   int
	Stamp    *Stamp
	Body     []byte
	Header   http.Header
	Err      string
	Duration time.Duration
}

func Request(proxyAddr, mode, endpoint, method, path string, hdr map[string]string, body []byte) Reply {
	req, err := http.NewRequest(method, "http://"+proxyAddr+path, bytes.NewReader(body))
	if err != nil {
		return Reply{Err: err.Error()}
	}
	switch mode {
	case "host":
		req.Host = endpoint + ".piko.example.com"
	case "header":
		req.Header.Set("x-piko-endpoint", endpoint)
	}
	for k, v := range hdr {
		if strings.EqualFold(k, "host") {
			req.Host = v
		} else {
			req.Header.Set(k, v)
		}
	}
	t := time.Now()
	resp, err := HTTP.Do(req)
	if err != nil {
		return Reply{Err: err.Error(), Duration: time.Since(t)}
	}
	defer resp.Body.Close()
	b, _ := io.ReadAll(resp.Body)
	r := Reply{Status: resp.StatusCode, Body: b, Header: resp.Header, Duration: time.Since(t)}
	if resp.StatusCode == 200 && resp.Header.Get("X-Stamp-Endpoint") != "" {
		var st Stamp
		if json.Unmarshal(b, &st) == nil {
			r.Stamp = &st
		}
	}
	return r
}

// DialTCP opens a tunnelled TCP connection to the endpoint through a proxy port.
func DialTCP(ctx context.Context, proxyAddr, endpoint, token string) (net.Conn, error) {
	d := &client.Dialer{URL: &url.URL{Scheme: "http", Host: proxyAddr}, Token: token}
	return d.Dial(ctx, endpoint)
}

// WaitFor polls cond until it holds or the timeout expires.
func WaitFor(timeout time.Duration, cond func() bool) bool {
	deadline := time.Now().Add(timeout)
	for {
		if cond() {
			return true
		}
		if time.Now().After(deadline) {
			return false
		}
		time.Sleep(5 * time.Millisecond)
	}
}

// Settled: every node's routing table lists, for every other live node, exactly
// the endpoints that node's own upstream registry reports.
func Settled(nodes []*Node, token string) bool {
	truth := map[string]map[string]int{}
	for _, n := range nodes {
		m, err := n.UpstreamEndpoints(token)
		if err != nil {
			return false
		}
		truth[n.ID] = m
	}
	for _, n := range nodes {
		cn, err := n.ClusterNodes(token)
		if err != nil {
			return false
		}
		seen := map[string]bool{}
		for _, x := range cn {
			want, ok := truth[x.ID]
			if !ok {
				continue
			}
			seen[x.ID] = true
			if x.Status != "active" {
				return false
			}
			got := x.Endpoints
			if len(got) != len(want) {
				return false
			}
			for e, c := range want {
				if got[e] != c {
					return false
				}
			}
		}
		for id := range truth {
			if !seen[id] {
				return false
			}
		}
	}
	return true
}

func Errf(format string, a ...interface{}) error { return fmt.Errorf(format, a...) }
