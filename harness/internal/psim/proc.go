package psim

import (
	"fmt"
	"net"
	"os"
	"os/exec"
	"syscall"
	"time"
)

// Proc is a piko server node running as a separate OS process (the real binary
// built from the working tree), so that it can really be killed.
type Proc struct {
	ID     string
	Cmd    *exec.Cmd
	Proxy  string
	Up     string
	Admin  string
	Gossip string
	done   chan struct{}
	exited time.Time
}

// ProcSecret is the HMAC key of the upstream port of every process started by StartProc.
const ProcSecret = "c18-secret"

func freeAddr() string {
	ln, err := net.Listen("tcp", "127.0.0.1:0")
	if err != nil {
		panic(err)
	}
	defer ln.Close()
	return ln.Addr().String()
}

func StartProc(bin, id string, join []string, grace time.Duration, logPath string) (*Proc, error) {
	p := &Proc{ID: id, Proxy: freeAddr(), Up: freeAddr(), Admin: freeAddr(), Gossip: freeAddr(), done: make(chan struct{})}
	args := []string{"server",
		"--cluster.node-id", id,
		"--proxy.bind-addr", p.Proxy, "--upstream.bind-addr", p.Up, "--admin.bind-addr", p.Admin,
		"--cluster.gossip.bind-addr", p.Gossip,
		"--cluster.gossip.interval", "10ms",
		"--cluster.join-timeout", "3s",
		"--proxy.access-log.disable",
		"--grace-period", grace.String(),
		"--log.level", "warn",
		// the upstream port is authenticated: listeners present tokens with and without an expiry
		"--upstream.auth.hmac-secret-key", ProcSecret,
	}
	if len(join) > 0 {
		for _, j := range join {
			args = append(args, "--cluster.join", j)
		}
	}
	p.Cmd = exec.Command(bin, args...)
	if logPath != "" {
		f, err := os.Create(logPath)
		if err == nil {
			p.Cmd.Stdout, p.Cmd.Stderr = f, f
		}
	}
	if err := p.Cmd.Start(); err != nil {
		return nil, err
	}
	go func() {
		_ = p.Cmd.Wait()
		p.exited = time.Now()
		close(p.done)
	}()
	ok := WaitFor(10*time.Second, func() bool {
		code, err := GetJSON(p.Admin, "/ready", "", nil)
		return err == nil && code == 200
	})
	if !ok {
		p.Kill()
		return nil, fmt.Errorf("process node %s did not become ready", id)
	}
	return p, nil
}

func (p *Proc) Term() { _ = p.Cmd.Process.Signal(syscall.SIGTERM) }
func (p *Proc) Kill() { _ = p.Cmd.Process.Signal(syscall.SIGKILL) }

// WaitExit waits for the process to end; returns whether it did in time.
func (p *Proc) WaitExit(d time.Duration) bool {
	select {
	case <-p.done:
		return true
	case <-time.After(d):
		return false
	}
}

func (p *Proc) Exited() bool {
	select {
	case <-p.done:
		return true
	default:
		return false
	}
}

// AsNode gives the admin-route helpers of Node for a process node.
func (p *Proc) ClusterNodes() ([]ClusterNode, error) {
	n := &Node{ID: p.ID}
	n.Conf = nil
	return clusterNodesAt(p.Admin)
}

func (p *Proc) UpstreamEndpoints() (map[string]int, error) {
	m := map[string]int{}
	_, err := GetJSON(p.Admin, "/status/upstream/endpoints", "", &m)
	return m, err
}

func clusterNodesAt(admin string) ([]ClusterNode, error) {
	var metas []struct {
		ID string `json:"id"`
	}
	if _, err := GetJSON(admin, "/status/cluster/nodes", "", &metas); err != nil {
		return nil, err
	}
	var out []ClusterNode
	for _, m := range metas {
		var full ClusterNode
		if code, err := GetJSON(admin, "/status/cluster/nodes/"+m.ID, "", &full); err == nil && code == 200 {
			out = append(out, full)
		}
	}
	return out, nil
}
