package psim

import (
	"net"
	"sync"
	"sync/atomic"
	"time"

	"github.com/golang-jwt/jwt/v5"
)

// Relay is a TCP relay in front of one or several backends; connections can be
// cut abruptly (network drop / killed peer) and backends can be disabled.
type Relay struct {
	ln       net.Listener
	mu       sync.Mutex
	backends []string
	disabled map[string]bool
	conns    map[net.Conn]string // client-side and backend-side conns -> backend
	next     int
	Accepted atomic.Int64
	stalled  atomic.Bool
	frozen   atomic.Bool
	noFail   atomic.Bool
}

// NoFailover(true): a connection whose chosen backend cannot be dialled is accepted and closed at once (a load
// balancer that still has a dead backend in rotation) instead of being passed to the next backend; the next
// connection starts with the next backend.
func (r *Relay) NoFailover(on bool) { r.noFail.Store(on) }

// Freeze(true) stops the relay reading from either side (the connections stay open and their TCP buffers fill
// up: a path that is congested to a standstill); Freeze(false) lets the traffic flow again.
func (r *Relay) Freeze(on bool) { r.frozen.Store(on) }

// Stall makes the relay a black hole: the connections stay open, nothing is carried any more in either direction
// and the end of one side is not passed on to the other (a network that silently drops packets).
func (r *Relay) Stall() { r.stalled.Store(true) }

func (r *Relay) pipe(dst, src net.Conn, done func()) {
	buf := make([]byte, 32*1024)
	for {
		for r.frozen.Load() {
			time.Sleep(5 * time.Millisecond)
		}
		n, err := src.Read(buf)
		if r.stalled.Load() {
			if err != nil {
				return // silently: the other side learns nothing
			}
			continue
		}
		if n > 0 {
			if _, werr := dst.Write(buf[:n]); werr != nil {
				done()
				return
			}
		}
		if err != nil {
			done()
			return
		}
	}
}

func NewRelay(backends ...string) (*Relay, error) {
	ln, err := net.Listen("tcp", "127.0.0.1:0")
	if err != nil {
		return nil, err
	}
	r := &Relay{ln: ln, backends: backends, disabled: map[string]bool{}, conns: map[net.Conn]string{}}
	go r.serve()
	return r, nil
}

func (r *Relay) Addr() string { return r.ln.Addr().String() }

// Open returns the number of relayed connections that are open (pairs of client-side and backend-side sockets).
func (r *Relay) Open() int {
	r.mu.Lock()
	defer r.mu.Unlock()
	return len(r.conns) / 2
}

func (r *Relay) pick() []string {
	r.mu.Lock()
	defer r.mu.Unlock()
	var out []string
	for i := 0; i < len(r.backends); i++ {
		b := r.backends[(r.next+i)%len(r.backends)]
		if !r.disabled[b] {
			out = append(out, b)
		}
	}
	r.next++
	return out
}

func (r *Relay) serve() {
	for {
		c, err := r.ln.Accept()
		if err != nil {
			return
		}
		go func() {
			var b net.Conn
			var backend string
			for _, cand := range r.pick() {
				x, err := net.DialTimeout("tcp", cand, time.Second)
				if err == nil {
					b, backend = x, cand
					break
				}
				if r.noFail.Load() {
					break
				}
			}
			if b == nil {
				c.Close()
				return
			}
			r.Accepted.Add(1)
			r.mu.Lock()
			r.conns[c], r.conns[b] = backend, backend
			r.mu.Unlock()
			done := func() {
				c.Close()
				b.Close()
				r.mu.Lock()
				delete(r.conns, c)
				delete(r.conns, b)
				r.mu.Unlock()
			}
			go r.pipe(b, c, done)
			go r.pipe(c, b, done)
		}()
	}
}

// Cut closes every relayed connection (to the given backend, or all if "").
func (r *Relay) Cut(backend string) int {
	r.mu.Lock()
	var cs []net.Conn
	for c, b := range r.conns {
		if backend == "" || b == backend {
			cs = append(cs, c)
		}
	}
	r.mu.Unlock()
	for _, c := range cs {
		if tc, ok := c.(*net.TCPConn); ok {
			_ = tc.SetLinger(0)
		}
		c.Close()
	}
	return len(cs) / 2
}

func (r *Relay) Disable(backend string, off bool) {
	r.mu.Lock()
	r.disabled[backend] = off
	r.mu.Unlock()
}

func (r *Relay) Close() {
	r.ln.Close()
	r.Cut("")
}

// HMACToken signs an HS256 token; exp zero means no expiry.
func HMACToken(secret string, exp time.Time, endpoints []string) string {
	claims := jwt.MapClaims{}
	if !exp.IsZero() {
		claims["exp"] = exp.Unix()
	}
	if len(endpoints) > 0 {
		claims["piko"] = map[string]interface{}{"endpoints": endpoints}
	}
	s, err := jwt.NewWithClaims(jwt.SigningMethodHS256, claims).SignedString([]byte(secret))
	if err != nil {
		panic(err)
	}
	return s
}
