package psim

import (
	"context"
	"encoding/json"
	"io"
	"net"
	"net/http"
	"net/url"
	"time"

	agentconfig "github.com/andydunstall/piko/agent/config"
	"github.com/andydunstall/piko/agent/reverseproxy"
	"github.com/andydunstall/piko/client"
	"github.com/andydunstall/piko/pkg/log"
)

// AgentUpstream is a stamping HTTP service on a local TCP port, reached through
// the piko agent's HTTP reverse proxy (agent/reverseproxy) which serves the
// endpoint's listener - the path `piko agent http <endpoint> <port>` sets up.
type AgentUpstream struct {
	*Upstream
	agent *reverseproxy.Server
	svcLn net.Listener
}

func ListenViaAgent(ctx context.Context, upstreamAddr, endpoint, id string, timeout time.Duration) (*AgentUpstream, error) {
	svcLn, err := net.Listen("tcp", "127.0.0.1:0")
	if err != nil {
		return nil, err
	}
	up := &client.Upstream{
		URL:                 &url.URL{Scheme: "http", Host: upstreamAddr},
		MinReconnectBackoff: 20 * time.Millisecond,
		MaxReconnectBackoff: 200 * time.Millisecond,
	}
	before := registered(upstreamAddr, endpoint)
	ln, err := up.Listen(ctx, endpoint)
	if err != nil {
		svcLn.Close()
		return nil, err
	}
	awaitRegistered(upstreamAddr, endpoint, before)
	u := &Upstream{ID: id, Endpoint: endpoint, Ln: ln}
	u.srv = &http.Server{Handler: http.HandlerFunc(func(w http.ResponseWriter, r *http.Request) {
		u.Requests.Add(1)
		body, _ := io.ReadAll(r.Body)
		st := &Stamp{Endpoint: endpoint, Upstream: id, Method: r.Method, Path: r.URL.EscapedPath(),
			RawQuery: r.URL.RawQuery, Host: r.Host, Header: r.Header, BodyLen: len(body), BodySum: Sum(body)}
		u.mu.Lock()
		u.Last = st
		u.mu.Unlock()
		if u.Behave != nil && u.Behave(w, r, st) {
			return
		}
		w.Header().Set("Content-Type", "application/json")
		w.Header().Set("X-Stamp-Endpoint", endpoint)
		w.Header().Set("X-Stamp-Upstream", id)
		_ = json.NewEncoder(w).Encode(st)
	})}
	go func() { _ = u.srv.Serve(svcLn) }()
	conf := agentconfig.ListenerConfig{EndpointID: endpoint, Addr: svcLn.Addr().String(), Protocol: agentconfig.ListenerProtocolHTTP,
		Timeout: timeout}
	conf.AccessLog.Level = "debug" // a valid configuration; the nop logger drops the entries
	conf.HTTPClient.DisableCompression = true
	agent := reverseproxy.NewServer(conf, reverseproxy.NewMetrics("agent"), log.NewNopLogger())
	go func() { _ = agent.Serve(ln) }()
	return &AgentUpstream{Upstream: u, agent: agent, svcLn: svcLn}, nil
}

func (a *AgentUpstream) Shutdown() {
	ctx, cancel := context.WithTimeout(context.Background(), time.Second)
	defer cancel()
	_ = a.agent.Shutdown(ctx)
	_ = a.Ln.Shutdown()
	_ = a.srv.Close()
}
