------------------------------- MODULE TraceLk --------------------------------
(***************************************************************************)
(* C20, second half: when activity stops, the upstream registry, the       *)
(* routing table entry of the local node and the published gossip state    *)
(* are mutually consistent.  A Quiet line is read from a real node after a *)
(* concurrent stress run, once every upstream has disconnected: the        *)
(* invariants are those of Upstreams.tla / Lifecycle.tla at quiescence.    *)
(***************************************************************************)
EXTENDS Integers, Sequences, FiniteSets, Json, TLC

Log == ndJsonDeserialize("trace.ndjson")
VARIABLES l, viol
tvars == <<l, viol>>

ECOf(arr) == [x \in {arr[i].e : i \in DOMAIN arr} |-> arr[CHOOSE i \in DOMAIN arr : arr[i].e = x].c]

QuietViolations(e) ==
  (IF ECOf(e.adv) # ECOf(e.reg) THEN {"CountsMatch"} ELSE {})
  \cup (IF ECOf(e.gos) # ECOf(e.adv) THEN {"PublishedMatches"} ELSE {})
  \cup (IF e.reg # <<>> \/ e.sess # 0 THEN {"AllGoneAdvertisesNothing"} ELSE {})

TraceInit == l = 1 /\ viol = {}
TraceNext ==
  /\ l <= Len(Log)
  /\ l' = l + 1
  /\ viol' = IF Log[l].op = "Quiet" THEN QuietViolations(Log[l]) ELSE {}
TraceSpec == TraceInit /\ [][TraceNext]_tvars
NoStepViolation == viol = {}
Consumed ==
  /\ PrintT(<<"TRACE-RESULT", TLCGet("stats").diameter - 1, Len(Log)>>)
  /\ TLCGet("stats").diameter - 1 = Len(Log)
DriftReport == l <= Len(Log) \/ PrintT(<<"TRACE-COUNTERS", 0, 0, 0>>)
=============================================================================
