------------------------------- MODULE Packet --------------------------------
(***************************************************************************)
(* C13: encodeDelta / encodeDigest (pkg/gossip/protocol.go) as the loops   *)
(* the code runs.  A datagram is a packet header followed by elements; for *)
(* a delta the elements are, per node, a node header and that node's       *)
(* entries in version order.  The encoder appends elements to a buffer and *)
(* remembers in bufLen the length after the last element that still fitted;*)
(* the datagram is buf[:bufLen].                                           *)
(*                                                                         *)
(* The inner loop's break only leaves the inner loop: the outer loop then  *)
(* appends the next node header to a buffer that is already over the limit *)
(* and breaks there.  The model keeps that structure.                      *)
(***************************************************************************)
EXTENDS Integers, Sequences, FiniteSets

CONSTANTS Sizes,      \* possible encoded sizes of an element
          MaxNodes, MaxEntries,
          HeaderSize  \* encoded size of the packet header

VARIABLES delta,  \* sequence of nodes: [h |-> size of node header, es |-> sequence of entry sizes]
          max,    \* maximum packet size
          pc, ni, ei,
          buf,    \* bytes appended so far (may exceed max)
          bufLen, \* bytes committed
          taken,  \* number of elements committed
          err     \* TRUE: "max packet size too small for header"

vars == <<delta, max, pc, ni, ei, buf, bufLen, taken, err>>

RECURSIVE Sum(_)
Sum(s) == IF s = <<>> THEN 0 ELSE Head(s) + Sum(Tail(s))

RECURSIVE Flat(_)
Flat(d) == IF d = <<>> THEN <<>> ELSE <<Head(d).h>> \o Head(d).es \o Flat(Tail(d))

Total(d) == HeaderSize + Sum(Flat(d))

SeqsUpTo(S, n) == UNION {[1..k -> S] : k \in 0..n}
NodeDeltas == [h : Sizes, es : SeqsUpTo(Sizes, MaxEntries)]
Deltas == SeqsUpTo(NodeDeltas, MaxNodes)

Init ==
  /\ delta \in Deltas
  /\ max \in (HeaderSize - 1)..(Total(delta) + 1)
  /\ pc = "header" /\ ni = 1 /\ ei = 1
  /\ buf = 0 /\ bufLen = 0 /\ taken = 0 /\ err = FALSE

\* encode the packet header; fail if it does not fit
Header ==
  /\ pc = "header"
  /\ buf' = HeaderSize
  /\ IF HeaderSize > max
     THEN /\ err' = TRUE /\ pc' = "done" /\ bufLen' = 0
     ELSE /\ err' = FALSE /\ pc' = "node" /\ bufLen' = HeaderSize
  /\ UNCHANGED <<delta, max, ni, ei, taken>>

\* outer loop: append the node header
NodeHeader ==
  /\ pc = "node"
  /\ IF ni > Len(delta) THEN pc' = "done" /\ UNCHANGED <<buf, bufLen, taken, ei>>
     ELSE /\ buf' = buf + delta[ni].h
          /\ IF buf' > max
             THEN pc' = "done" /\ UNCHANGED <<bufLen, taken, ei>>
             ELSE pc' = "entry" /\ bufLen' = buf' /\ taken' = taken + 1 /\ ei' = 1
  /\ UNCHANGED <<delta, max, ni, err>>

\* inner loop: append the next entry of the current node
Entry ==
  /\ pc = "entry"
  /\ IF ei > Len(delta[ni].es)
     THEN pc' = "node" /\ ni' = ni + 1 /\ UNCHANGED <<buf, bufLen, taken, ei>>
     ELSE /\ buf' = buf + delta[ni].es[ei]
          /\ IF buf' > max
             THEN \* break: leaves the inner loop only
                  pc' = "node" /\ ni' = ni + 1 /\ UNCHANGED <<bufLen, taken, ei>>
             ELSE pc' = "entry" /\ ei' = ei + 1 /\ bufLen' = buf' /\ taken' = taken + 1 /\ UNCHANGED ni
  /\ UNCHANGED <<delta, max, err>>

Next == Header \/ NodeHeader \/ Entry
Spec == Init /\ [][Next]_vars /\ WF_vars(Next)

-----------------------------------------------------------------------------
Cum(k) == HeaderSize + Sum(SubSeq(Flat(delta), 1, k))
NElems == Len(Flat(delta))

Done == pc = "done" /\ ~err

FitsBudget == Done => bufLen <= max
WholeElementsOnly == Done => bufLen = Cum(taken)
LongestFittingPrefix == Done => (taken = NElems \/ Cum(taken + 1) > max)
\* at least one entry whenever the next one fits: a consequence, stated separately
EntryWheneverFits ==
  Done => \A k \in 1..NElems : Cum(k) <= max => taken >= k
HeaderError == (pc = "done" /\ err) <=> (pc = "done" /\ HeaderSize > max)
Terminates == <>(pc = "done")
=============================================================================
