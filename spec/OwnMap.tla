------------------------------- MODULE OwnMap -------------------------------
(***************************************************************************)
(* C17: a node's own published state is a last-write-wins map.             *)
(* Every call of the local API is taken, including the calls that must be  *)
(* no-ops (same value again, delete of an absent or deleted key,           *)
(* compaction below the threshold).  ref is the reference map.             *)
(***************************************************************************)
EXTENDS Gossip

VARIABLE ref
ovars == <<vars, ref>>

OInit == Init /\ ref = [n \in Node |-> [k \in Key |-> Absent]]

CallUpsert(n, k, v) == UpsertLocal(n, k, v) /\ ref' = [ref EXCEPT ![n][k] = v]
CallDelete(n, k) == DeleteLocal(n, k) /\ ref' = [ref EXCEPT ![n][k] = Absent]
CallLeave(n) == Has("leave") /\ LeaveLocal(n) /\ UNCHANGED ref
CallCompact(n, thr) == Has("compact") /\ Own(n).ents # {} /\ CompactLocal(n, thr) /\ UNCHANGED ref

ONext ==
  \/ \E n \in Writers, k \in Key, v \in Val : CallUpsert(n, k, v)
  \/ \E n \in Writers, k \in Key : CallDelete(n, k)
  \/ \E n \in Writers : CallLeave(n)
  \/ \E n \in Writers, thr \in 0..2 : CallCompact(n, thr)

OSpec == OInit /\ [][ONext]_ovars

MatchesRef == MatchesRefOf(ref)

\* a write that does not change the map consumes no version
NoVersionOnNoopStep ==
  \A n \in Node :
    (/\ (\E k \in Key, v \in Val : UpsertLocal(n, k, v)) \/ (\E k \in Key : DeleteLocal(n, k))
     /\ LiveMap(Own(n)') = LiveMap(Own(n)))
      => Own(n)' = Own(n)

\* compaction removes the deletion markers and nothing else
CompactKeepsLiveStep ==
  \A n \in Node : \A thr \in 0..2 :
    (CompactLocal(n, thr) /\ Own(n)' # Own(n)) =>
       /\ LiveMap(Own(n)') = LiveMap(Own(n))
       /\ Tombstones(Own(n)') = {}
       /\ LiveBefore(Own(n)') = LiveBefore(Own(n))
       /\ Own(n)'.left = Own(n).left
       /\ (Own(n).left => \E e \in Own(n)'.ents : e.int /\ e.k = LEFTK)

FreshVersionOnChange == [][FreshVersionStep]_ovars
NoVersionOnNoop == [][NoVersionOnNoopStep]_ovars
CompactKeepsLive == [][CompactKeepsLiveStep]_ovars

OView == <<st, ref>>
=============================================================================
