------------------------------ MODULE Upstreams ------------------------------
(***************************************************************************)
(* The upstream registry of one server node:                               *)
(*   server/upstream/manager.go   LoadBalancedManager + loadBalancer       *)
(*   server/cluster/state.go      AddLocalEndpoint / RemoveLocalEndpoint   *)
(*   server/gossip/syncer.go      onLocalEndpointUpdate                    *)
(*   pkg/gossip/state.go          UpsertLocal / DeleteLocal of endpoint:e  *)
(* One action per call of the Manager interface (each runs under the       *)
(* manager mutex).  RemoveConn may be called for any upstream ever added,  *)
(* any number of times: the proxy removes an upstream whose session        *)
(* reports go-away, and the upstream handler's deferred RemoveConn runs    *)
(* when the connection ends.  Between the moment an upstream's session     *)
(* ends (CloseSess) and that deferred RemoveConn the upstream is still      *)
(* registered, still counted and may still be selected (the dial fails).    *)
(***************************************************************************)
EXTENDS Integers, Sequences, FiniteSets, TLC

CONSTANTS UpE1, UpE2, \* upstream identities listening on endpoint "e1" / "e2"
          Remote,    \* endpoints the remote node may advertise (for Select with allowRemote)
          MaxSel     \* bound on the ghost counters (model only)

Up == UpE1 \cup UpE2
EpOf == [u \in Up |-> IF u \in UpE1 THEN "e1" ELSE "e2"]
Ep == {"e1", "e2"} \cup Remote
NONE == "<none>"
REMOTE == "<remote>"

VARIABLES
  lb,      \* lb[e] = [ups |-> sequence of upstreams, next |-> cursor]; domain = endpoints with upstreams
  count,   \* count[e]: listeners recorded in cluster.State (domain = endpoints with count > 0)
  pub,     \* pub[e]: count published in the gossip state (domain = live endpoint:e keys)
  added,   \* upstreams ever added
  closed,  \* registered upstreams whose session has ended (their RemoveConn has not run yet)
  radv,    \* endpoints the remote node advertises now (cluster.State, fed by gossip)
  rup,     \* the remote node is considered active (FALSE: unreachable)
  last,    \* result of the last Select: an upstream, REMOTE or NONE; "" if the last call was not a Select
  recent,  \* ghost: recent[e] = selections on e since its set of upstreams last changed (capped)
  wait     \* ghost: wait[u] = selections on EpOf[u] since u was last selected or added

vars == <<lb, count, pub, added, closed, radv, rup, last, recent, wait>>

Init ==
  /\ lb = <<>> /\ count = <<>> /\ pub = <<>>
  /\ added = {} /\ closed = {}
  /\ radv = Remote /\ rup = TRUE
  /\ last = ""
  /\ recent = [e \in Ep |-> <<>>]
  /\ wait = [u \in Up |-> 0]

Set(f, k, v) == [x \in DOMAIN f \cup {k} |-> IF x = k THEN v ELSE f[x]]
Del(f, k) == [x \in DOMAIN f \ {k} |-> f[x]]
Range(s) == {s[i] : i \in DOMAIN s}

Registered(e) == IF e \in DOMAIN lb THEN Range(lb[e].ups) ELSE {}

\* AddLocalEndpoint + onLocalEndpointUpdate
AddLocal(e) ==
  LET c == (IF e \in DOMAIN count THEN count[e] ELSE 0) + 1
  IN count' = Set(count, e, c) /\ pub' = Set(pub, e, c)

\* RemoveLocalEndpoint + onLocalEndpointUpdate (a count of 0 is only warned about)
RemoveLocal(e) ==
  IF e \notin DOMAIN count THEN UNCHANGED <<count, pub>>
  ELSE IF count[e] > 1 THEN count' = Set(count, e, count[e] - 1) /\ pub' = Set(pub, e, count[e] - 1)
  ELSE count' = Del(count, e) /\ pub' = Del(pub, e)

AddConn(u) ==
  /\ u \notin added
  /\ LET e == EpOf[u]
         old == IF e \in DOMAIN lb THEN lb[e] ELSE [ups |-> <<>>, next |-> 0]
     IN /\ lb' = Set(lb, e, [old EXCEPT !.ups = Append(@, u)])
        /\ AddLocal(e)
        /\ recent' = [recent EXCEPT ![e] = <<>>]
  /\ added' = added \cup {u}
  /\ wait' = [wait EXCEPT ![u] = 0]
  /\ last' = ""
  /\ UNCHANGED <<closed, radv, rup>>

\* loadBalancer.Remove + the repaired RemoveConn: the cluster count changes only
\* if the upstream was still registered
RemoveConn(u) ==
  /\ u \in added
  /\ LET e == EpOf[u] IN
     IF e \notin DOMAIN lb \/ u \notin Range(lb[e].ups)
     THEN UNCHANGED <<lb, count, pub, recent>>
     ELSE LET i == CHOOSE j \in DOMAIN lb[e].ups : lb[e].ups[j] = u
              ups2 == SubSeq(lb[e].ups, 1, i - 1) \o SubSeq(lb[e].ups, i + 1, Len(lb[e].ups))
          IN /\ IF ups2 = <<>> THEN lb' = Del(lb, e)
                ELSE lb' = Set(lb, e, [ups |-> ups2, next |-> lb[e].next % Len(ups2)])
             /\ RemoveLocal(e)
             /\ recent' = [recent EXCEPT ![e] = <<>>]
  /\ closed' = closed \ {u}
  /\ UNCHANGED <<added, wait, radv, rup>>
  /\ last' = ""

\* the session of a registered upstream ends (the client went away, the network dropped):
\* nothing in the registry changes until the handler's deferred RemoveConn runs
CloseSess(u) ==
  /\ u \in Registered(EpOf[u]) /\ u \notin closed
  /\ closed' = closed \cup {u}
  /\ last' = ""
  /\ UNCHANGED <<lb, count, pub, added, recent, wait, radv, rup>>

\* what gossip tells cluster.State about the remote node: it starts or stops advertising an
\* endpoint, it becomes unreachable or reachable again; the registry of local upstreams is untouched
RemoteAdv(e) ==
  /\ e \in Remote \ radv /\ radv' = radv \cup {e} /\ last' = ""
  /\ UNCHANGED <<lb, count, pub, added, closed, rup, recent, wait>>
RemoteWithdraw(e) ==
  /\ e \in radv /\ radv' = radv \ {e} /\ last' = ""
  /\ UNCHANGED <<lb, count, pub, added, closed, rup, recent, wait>>
RemoteStatus(b) ==
  /\ rup # b /\ rup' = b /\ last' = ""
  /\ UNCHANGED <<lb, count, pub, added, closed, radv, recent, wait>>
RemoteServes(e) == rup /\ e \in radv

\* Select(e, allowRemote): local upstreams first (round robin), else a remote node if allowed
Select(e, allowRemote) ==
  /\ IF e \in DOMAIN lb
     THEN LET u == lb[e].ups[lb[e].next + 1]
              n == Len(lb[e].ups)
          IN /\ last' = u
             /\ lb' = [lb EXCEPT ![e].next = (@ + 1) % n]
             /\ recent' = [recent EXCEPT ![e] = IF Len(@) < n THEN Append(@, u) ELSE Append(Tail(@), u)]
             /\ wait' = [x \in Up |-> IF x = u THEN 0
                                      ELSE IF x \in Range(lb[e].ups) /\ wait[x] < MaxSel THEN wait[x] + 1
                                      ELSE wait[x]]
     ELSE /\ last' = IF allowRemote /\ RemoteServes(e) THEN REMOTE ELSE NONE
          /\ UNCHANGED <<lb, recent, wait>>
  /\ UNCHANGED <<count, pub, added, closed, radv, rup>>

Next ==
  \/ \E u \in Up : AddConn(u)
  \/ \E u \in Up : RemoveConn(u)
  \/ \E u \in Up : CloseSess(u)
  \/ \E e \in Remote : RemoteAdv(e) \/ RemoteWithdraw(e)
  \/ \E b \in BOOLEAN : RemoteStatus(b)
  \/ \E e \in Ep, r \in BOOLEAN : Select(e, r)

Spec == Init /\ [][Next]_vars

-----------------------------------------------------------------------------
(* C05 *)
CountsMatch ==
  /\ DOMAIN count = DOMAIN lb
  /\ \A e \in DOMAIN lb : count[e] = Len(lb[e].ups) /\ count[e] > 0
PublishedMatches == pub = count
AdvertisedIffConnected == \A e \in Ep : (e \in DOMAIN pub) <=> (Registered(e) # {})

ClosedAreRegistered == \A u \in closed : u \in Registered(EpOf[u])

(* C15 *)
CursorInRange == \A e \in DOMAIN lb : lb[e].next \in 0..(Len(lb[e].ups) - 1)
NoDuplicates == \A e \in DOMAIN lb : \A i, j \in DOMAIN lb[e].ups : lb[e].ups[i] = lb[e].ups[j] => i = j
RightEndpoint == \A e \in DOMAIN lb : \A u \in Range(lb[e].ups) : EpOf[u] = e
\* the selections since the set last changed never repeat within a window of n
WindowFair ==
  \A e \in DOMAIN lb : \A i, j \in DOMAIN recent[e] : recent[e][i] = recent[e][j] => i = j
NoStarvation == \A u \in Up : wait[u] <= 2 * Cardinality(Up) - 1

\* as step properties (also used on traces)
SelectValidStep ==
  \A e \in Ep, r \in BOOLEAN :
    Select(e, r) =>
      /\ (Registered(e) # {} => last' \in Registered(e))
      /\ (Registered(e) = {} => last' \in {NONE, REMOTE})
      /\ (~r => last' # REMOTE)
      /\ (last' = REMOTE => RemoteServes(e))
SelectValid == [][SelectValidStep]_vars

View == <<lb, count, pub, added, closed, radv, rup, recent, wait>>
=============================================================================
