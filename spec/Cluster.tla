------------------------------- MODULE Cluster --------------------------------
(***************************************************************************)
(* C18: losing a server node.                                              *)
(*   server/server.go      Shutdown: not ready -> close the upstream       *)
(*                         server (all upstream sessions) -> close the     *)
(*                         proxy -> leave the cluster (notify peers) ->    *)
(*                         close gossip -> admin                           *)
(*   pkg/gossip/gossip.go  Leave: push the own state (with the left        *)
(*                         marker) to up to MaxNotify live peers           *)
(*   client/listener.go    the accept loop reconnects when the session     *)
(*                         ends (through a load balancer in front of the   *)
(*                         upstream ports)                                 *)
(* Gossip is abstracted to "o learns n's published state" (directly, or the*)
(* final left state from a peer); the failure detector to "o marks a dead  *)
(* node unreachable".  One node is lost, gracefully or by a kill at any    *)
(* phase (including in the middle of its shutdown).                        *)
(***************************************************************************)
EXTENDS Integers, FiniteSets

CONSTANTS Node, Lsn, MaxNotify,
          AwaitDereg   \* Shutdown() waits for the upstream handlers to deregister before it goes on
                       \* (FALSE: the behaviour of the pinned tree, finding D6 - the node could leave the
                       \* cluster while still advertising upstreams)

VARIABLES
  phase,   \* phase[n] : "up" | "notready" | "upclosed" | "proxyclosed" | "left" | "down" | "killed"
  conn,    \* conn[l]  : the node the listener is connected to, or "none"
  reg,     \* reg[n]   : listeners registered on n (what n publishes about itself)
  view,    \* view[o][n] : [eps, st] what o believes about n
  victim   \* the node that is lost ("" before)

vars == <<phase, conn, reg, view, victim>>

Gossiping(n) == phase[n] \in {"up", "notready", "upclosed", "proxyclosed", "left"}
UpstreamOpen(n) == phase[n] \in {"up", "notready"}
ProxyOpen(n) == phase[n] \in {"up", "notready", "upclosed"}
Dead(n) == phase[n] \in {"down", "killed"}

Init ==
  /\ phase = [n \in Node |-> "up"]
  /\ conn \in [Lsn -> Node]
  /\ reg = [n \in Node |-> {l \in Lsn : conn[l] = n}]
  /\ view = [o \in Node |-> [n \in Node |-> [eps |-> reg[n], st |-> "active"]]]
  /\ victim = ""

Lose(n) == victim = "" /\ victim' = n /\ UNCHANGED <<phase, conn, reg, view>>

\* one step of Shutdown()
StopStep(n) ==
  /\ victim = n
  /\ \/ /\ phase[n] = "up" /\ phase' = [phase EXCEPT ![n] = "notready"]
        /\ UNCHANGED <<conn, reg, view>>
     \/ /\ phase[n] = "notready" /\ phase' = [phase EXCEPT ![n] = "upclosed"]
        \* the upstream handlers' context is cancelled: every session is closed; each handler
        \* deregisters its upstream in its own time (Dereg)
        /\ conn' = [l \in Lsn |-> IF conn[l] = n THEN "none" ELSE conn[l]]
        /\ UNCHANGED <<reg, view>>
     \/ /\ phase[n] = "upclosed" /\ phase' = [phase EXCEPT ![n] = "proxyclosed"]
        /\ (AwaitDereg => reg[n] = {})
        /\ UNCHANGED <<conn, reg, view>>
     \/ /\ phase[n] = "proxyclosed" /\ phase' = [phase EXCEPT ![n] = "left"]
        \* Leave(): the own state, now with the left marker, is pushed to up to MaxNotify gossiping peers
        /\ \E S \in SUBSET {o \in Node \ {n} : Gossiping(o)} :
             /\ Cardinality(S) = (IF Cardinality({o \in Node \ {n} : Gossiping(o)}) < MaxNotify
                                  THEN Cardinality({o \in Node \ {n} : Gossiping(o)}) ELSE MaxNotify)
             /\ view' = [o \in Node |-> IF o \in S THEN [view[o] EXCEPT ![n] = [eps |-> reg[n], st |-> "left"]]
                                        ELSE view[o]]
        /\ UNCHANGED <<conn, reg>>
     \/ /\ phase[n] = "left" /\ phase' = [phase EXCEPT ![n] = "down"]
        /\ UNCHANGED <<conn, reg, view>>
  /\ UNCHANGED victim

\* a handler whose session ended runs its deferred RemoveConn
Dereg(n, l) ==
  /\ l \in reg[n] /\ conn[l] # n /\ ~Dead(n)
  /\ reg' = [reg EXCEPT ![n] = @ \ {l}]
  /\ UNCHANGED <<phase, conn, view, victim>>

\* the process dies (also in the middle of a shutdown)
Kill(n) ==
  /\ victim = n /\ ~Dead(n)
  /\ phase' = [phase EXCEPT ![n] = "killed"]
  /\ conn' = [l \in Lsn |-> IF conn[l] = n THEN "none" ELSE conn[l]]
  /\ UNCHANGED <<reg, view, victim>>

\* o hears n's published state (push-pull round with n itself)
Gossip(o, n) ==
  /\ o # n /\ Gossiping(o) /\ Gossiping(n)
  /\ view' = [view EXCEPT ![o][n] = [eps |-> reg[n],
                                     st |-> IF phase[n] = "left" THEN "left" ELSE "active"]]
  /\ UNCHANGED <<phase, conn, reg, victim>>

\* o hears from m that n left (the left marker travels with n's last state)
Relay(o, m, n) ==
  /\ o # n /\ m # n /\ o # m /\ Gossiping(o) /\ Gossiping(m)
  /\ view[m][n].st = "left" /\ view[o][n].st # "left"
  /\ view' = [view EXCEPT ![o][n] = view[m][n]]
  /\ UNCHANGED <<phase, conn, reg, victim>>

\* the failure detector gives up on a node that no longer answers
Detect(o, n) ==
  /\ o # n /\ Gossiping(o) /\ Dead(n) /\ view[o][n].st = "active"
  /\ view' = [view EXCEPT ![o][n].st = "unreachable"]
  /\ UNCHANGED <<phase, conn, reg, victim>>

\* the listener's accept loop reconnects through the load balancer
Reconnect(l, n) ==
  /\ conn[l] = "none" /\ UpstreamOpen(n)
  /\ conn' = [conn EXCEPT ![l] = n]
  /\ reg' = [reg EXCEPT ![n] = @ \cup {l}]
  /\ UNCHANGED <<phase, view, victim>>

Next ==
  \/ \E n \in Node : Lose(n) \/ StopStep(n) \/ Kill(n)
  \/ \E o, n \in Node : Gossip(o, n) \/ Detect(o, n)
  \/ \E o, m, n \in Node : Relay(o, m, n)
  \/ \E l \in Lsn, n \in Node : Reconnect(l, n) \/ Dereg(n, l)

Fairness ==
  /\ \A o, n \in Node : WF_vars(Gossip(o, n)) /\ WF_vars(Detect(o, n))
  /\ \A o, m, n \in Node : WF_vars(Relay(o, m, n))
  /\ \A l \in Lsn : WF_vars(\E n \in Node : Reconnect(l, n))
  /\ \A n \in Node : WF_vars(StopStep(n))
  /\ \A n \in Node, l \in Lsn : WF_vars(Dereg(n, l))
  /\ WF_vars(\E n \in Node : Lose(n))
Spec == Init /\ [][Next]_vars /\ Fairness

-----------------------------------------------------------------------------
\* where node o would send a request for listener l's endpoint
Candidates(o, l) == {m \in Node \ {o} : view[o][m].st = "active" /\ l \in view[o][m].eps}
ServesFrom(o, l) ==
  \/ l \in reg[o]
  \/ /\ Candidates(o, l) # {}
     /\ \A m \in Candidates(o, l) : ProxyOpen(m) /\ l \in reg[m]

\* safety
StoppedNodeAdvertisesNothing == \A n \in Node : phase[n] \in {"proxyclosed", "left", "down"} => reg[n] = {}
LeftViewsAreEmpty == \A o, n \in Node : (o # n /\ view[o][n].st = "left") => view[o][n].eps = {}
NeverRouteToLeft == \A o \in Node, l \in Lsn : \A m \in Candidates(o, l) : view[o][m].st = "active"
\* the nodes it notified stop routing to it at once (everyone, when there are at most MaxNotify peers)
NotifiedStopRoutingAtOnce ==
  \A n \in Node : (phase[n] \in {"left", "down"} /\ Cardinality(Node) - 1 <= MaxNotify) =>
     \A o \in Node \ {n} : Gossiping(o) => view[o][n].st = "left"

\* liveness: after the loss, listeners are connected to survivors and every survivor serves them
Recovered ==
  /\ victim # "" /\ Dead(victim)
  /\ \A l \in Lsn : conn[l] \in Node /\ ~Dead(conn[l])
  /\ \A o \in Node \ {victim} : \A l \in Lsn : ServesFrom(o, l)
EventuallyRecovered == <>[]Recovered
StopTerminates == \A n \in Node : (victim = n) ~> Dead(n)
=============================================================================
