------------------------------- MODULE Cluster --------------------------------
(***************************************************************************)
(* C18: losing a server node.                                              *)
(*   server/server.go      Shutdown: not ready -> close the upstream       *)
(*                         server (cancel the handlers' context, wait for  *)
(*                         the upstreams to be removed) -> close the proxy *)
(*                         -> leave the cluster (notify peers) -> close    *)
(*                         gossip -> admin                                 *)
(*   server/upstream/server.go  every handler removes its upstream in its  *)
(*                         own time after its session ended (Dereg)        *)
(*   pkg/gossip/gossip.go  Leave: push the own state (with the left        *)
(*                         marker) to up to MaxNotify live peers           *)
(*   client/listener.go    the accept loop reconnects when the session     *)
(*                         ends (through a load balancer in front of the   *)
(*                         upstream ports)                                 *)
(* What a node publishes about itself is a history pub[n] (one element per *)
(* change of its registered upstreams, the last one carrying the left      *)
(* marker); what o knows about n is a position in that history (gossip     *)
(* delivers version prefixes: Gossip.tla, C02), moved forward by a round   *)
(* with n itself, by a round with a peer that knows more, or by n's leave  *)
(* notification; plus o's own failure detector flag.  One node is lost,    *)
(* gracefully or by a kill at any phase (also in the middle of its         *)
(* shutdown).                                                              *)
(***************************************************************************)
EXTENDS Integers, FiniteSets, Sequences

CONSTANTS Node, Lsn, MaxNotify,
          AwaitDereg,  \* Shutdown() waits for the upstream handlers to deregister before it goes on
                       \* (FALSE: the behaviour of the pinned tree, finding D6 - the node could leave the
                       \* cluster while still advertising upstreams)
          Flaky        \* the failure detector may suspect a live node for a while (trace validation under load)

VARIABLES
  phase,   \* phase[n] : "up" | "notready" | "upclosed" | "proxyclosed" | "left" | "down" | "killed"
  conn,    \* conn[l]  : the node the listener is connected to, or "none"
  reg,     \* reg[n]   : listeners registered on n
  pub,     \* pub[n]   : what n published about itself, in order: [eps, left]
  view,    \* view[o][n] : [ver, unreach] - how far o has followed pub[n], and o's failure detector flag for n
  victim   \* the node that is lost ("" before)

vars == <<phase, conn, reg, pub, view, victim>>

Gossiping(n) == phase[n] \in {"up", "notready", "upclosed", "proxyclosed", "left"}
UpstreamOpen(n) == phase[n] \in {"up", "notready"}
ProxyOpen(n) == phase[n] \in {"up", "notready", "upclosed"}
Dead(n) == phase[n] \in {"down", "killed"}

Latest(n) == Len(pub[n])
Known(o, n) == pub[n][view[o][n].ver]
EpsOf(o, n) == Known(o, n).eps
StOf(o, n) == IF Known(o, n).left THEN "left" ELSE IF view[o][n].unreach THEN "unreachable" ELSE "active"

InitFor(c) ==
  /\ phase = [n \in Node |-> "up"]
  /\ conn = c
  /\ reg = [n \in Node |-> {l \in Lsn : c[l] = n}]
  /\ pub = [n \in Node |-> <<[eps |-> {l \in Lsn : c[l] = n}, left |-> FALSE]>>]
  /\ view = [o \in Node |-> [n \in Node |-> [ver |-> 1, unreach |-> FALSE]]]
  /\ victim = ""
Init == \E c \in [Lsn -> Node] : InitFor(c)

Publish(n, r, left) == pub' = [pub EXCEPT ![n] = Append(@, [eps |-> r, left |-> left])]

Lose(n) == victim = "" /\ victim' = n /\ UNCHANGED <<phase, conn, reg, pub, view>>

\* one step of Shutdown()
StopStep(n) ==
  /\ victim = n
  /\ \/ /\ phase[n] = "up" /\ phase' = [phase EXCEPT ![n] = "notready"]
        /\ UNCHANGED <<conn, reg, pub, view>>
     \/ /\ phase[n] = "notready" /\ phase' = [phase EXCEPT ![n] = "upclosed"]
        \* the upstream handlers' context is cancelled: every session is closed; each handler
        \* deregisters its upstream in its own time (Dereg)
        /\ conn' = [l \in Lsn |-> IF conn[l] = n THEN "none" ELSE conn[l]]
        /\ UNCHANGED <<reg, pub, view>>
     \/ /\ phase[n] = "upclosed" /\ phase' = [phase EXCEPT ![n] = "proxyclosed"]
        /\ (AwaitDereg => reg[n] = {})
        /\ UNCHANGED <<conn, reg, pub, view>>
     \/ /\ phase[n] = "proxyclosed" /\ phase' = [phase EXCEPT ![n] = "left"]
        \* Leave(): the own state, now with the left marker, is pushed to up to MaxNotify gossiping peers
        /\ Publish(n, reg[n], TRUE)
        /\ \E S \in SUBSET {o \in Node \ {n} : Gossiping(o)} :
             /\ Cardinality(S) = (IF Cardinality({o \in Node \ {n} : Gossiping(o)}) < MaxNotify
                                  THEN Cardinality({o \in Node \ {n} : Gossiping(o)}) ELSE MaxNotify)
             /\ view' = [o \in Node |-> IF o \in S THEN [view[o] EXCEPT ![n].ver = Latest(n) + 1] ELSE view[o]]
        /\ UNCHANGED <<conn, reg>>
     \/ /\ phase[n] = "left" /\ phase' = [phase EXCEPT ![n] = "down"]
        /\ UNCHANGED <<conn, reg, pub, view>>
  /\ UNCHANGED victim

\* a handler whose session ended runs its deferred RemoveConn
Dereg(n, l) ==
  /\ l \in reg[n] /\ conn[l] # n /\ ~Dead(n)
  /\ reg' = [reg EXCEPT ![n] = @ \ {l}]
  /\ Publish(n, reg[n] \ {l}, pub[n][Latest(n)].left)
  /\ UNCHANGED <<phase, conn, view, victim>>

\* the process dies (also in the middle of a shutdown)
Kill(n) ==
  /\ victim = n /\ ~Dead(n)
  /\ phase' = [phase EXCEPT ![n] = "killed"]
  /\ conn' = [l \in Lsn |-> IF conn[l] = n THEN "none" ELSE conn[l]]
  /\ UNCHANGED <<reg, pub, view, victim>>

\* a push-pull round of o with n itself: o is up to date about n (and n about o)
Gossip(o, n) ==
  /\ o # n /\ Gossiping(o) /\ Gossiping(n)
  /\ view[o][n].ver < Latest(n)
  /\ view' = [view EXCEPT ![o][n].ver = Latest(n)]
  /\ UNCHANGED <<phase, conn, reg, pub, victim>>

\* a round of o with m brings o what m knows about n
Relay(o, m, n) ==
  /\ o # n /\ m # n /\ o # m /\ Gossiping(o) /\ Gossiping(m)
  /\ view[m][n].ver > view[o][n].ver
  /\ view' = [view EXCEPT ![o][n].ver = view[m][n].ver]
  /\ UNCHANGED <<phase, conn, reg, pub, victim>>

\* the failure detector gives up on a node that no longer answers
Detect(o, n) ==
  /\ o # n /\ Gossiping(o) /\ Dead(n) /\ ~view[o][n].unreach
  /\ view' = [view EXCEPT ![o][n].unreach = TRUE]
  /\ UNCHANGED <<phase, conn, reg, pub, victim>>

\* ... and may wrongly suspect a live node for a while
FalseSuspect(o, n) ==
  /\ Flaky /\ o # n /\ Gossiping(o) /\ ~Dead(n) /\ ~view[o][n].unreach
  /\ view' = [view EXCEPT ![o][n].unreach = TRUE]
  /\ UNCHANGED <<phase, conn, reg, pub, victim>>
Unsuspect(o, n) ==
  /\ o # n /\ Gossiping(o) /\ Gossiping(n) /\ view[o][n].unreach
  /\ view' = [view EXCEPT ![o][n].unreach = FALSE]
  /\ UNCHANGED <<phase, conn, reg, pub, victim>>

\* the listener's accept loop reconnects through the load balancer
Reconnect(l, n) ==
  /\ conn[l] = "none" /\ UpstreamOpen(n)
  /\ conn' = [conn EXCEPT ![l] = n]
  /\ reg' = [reg EXCEPT ![n] = @ \cup {l}]
  /\ (IF l \in reg[n] THEN UNCHANGED pub ELSE Publish(n, reg[n] \cup {l}, FALSE))
  /\ UNCHANGED <<phase, view, victim>>

\* everything the scenario driver does not do itself
BackgroundCore ==
  \/ \E n \in Node : StopStep(n)
  \/ \E o, n \in Node : Gossip(o, n) \/ Detect(o, n)
  \/ \E o, m, n \in Node : Relay(o, m, n)
  \/ \E l \in Lsn, n \in Node : Reconnect(l, n) \/ Dereg(n, l)
Background ==
  \/ BackgroundCore
  \/ \E o, n \in Node : FalseSuspect(o, n) \/ Unsuspect(o, n)

Next ==
  \/ \E n \in Node : Lose(n) \/ Kill(n)
  \/ Background

Fairness ==
  /\ \A o, n \in Node : WF_vars(Gossip(o, n)) /\ WF_vars(Detect(o, n)) /\ WF_vars(Unsuspect(o, n))
  /\ \A o, m, n \in Node : WF_vars(Relay(o, m, n))
  /\ \A l \in Lsn : WF_vars(\E n \in Node : Reconnect(l, n))
  /\ \A n \in Node : WF_vars(StopStep(n))
  /\ \A n \in Node, l \in Lsn : WF_vars(Dereg(n, l))
  /\ WF_vars(\E n \in Node : Lose(n))
Spec == Init /\ [][Next]_vars /\ Fairness

-----------------------------------------------------------------------------
\* where node o would send a request for listener l's endpoint
Candidates(o, l) == {m \in Node \ {o} : StOf(o, m) = "active" /\ l \in EpsOf(o, m)}
ServesFrom(o, l) ==
  \/ l \in reg[o]
  \/ /\ Candidates(o, l) # {}
     /\ \A m \in Candidates(o, l) : ProxyOpen(m) /\ l \in reg[m]

\* safety
VersionsInRange == \A o, n \in Node : view[o][n].ver \in 1..Latest(n)
StoppedNodeAdvertisesNothing == \A n \in Node : phase[n] \in {"proxyclosed", "left", "down"} => reg[n] = {}
LeftViewsAreEmpty == \A o, n \in Node : (o # n /\ StOf(o, n) = "left") => EpsOf(o, n) = {}
LeftOnlyAfterLeave == \A o, n \in Node : StOf(o, n) = "left" => phase[n] \in {"left", "down", "killed"}
NeverRouteToLeft == \A o \in Node, l \in Lsn : \A m \in Candidates(o, l) : StOf(o, m) = "active"
\* the nodes it notified stop routing to it at once (everyone, when there are at most MaxNotify peers)
NotifiedStopRoutingAtOnce ==
  \A n \in Node : (phase[n] \in {"left", "down"} /\ Cardinality(Node) - 1 <= MaxNotify) =>
     \A o \in Node \ {n} : Gossiping(o) => StOf(o, n) = "left"

\* liveness: after the loss, listeners are connected to survivors and every survivor serves them
Recovered ==
  /\ victim # "" /\ Dead(victim)
  /\ \A l \in Lsn : conn[l] \in Node /\ ~Dead(conn[l])
  /\ \A o \in Node \ {victim} : \A l \in Lsn : ServesFrom(o, l)
EventuallyRecovered == <>[]Recovered
StopTerminates == \A n \in Node : (victim = n) ~> Dead(n)
=============================================================================
