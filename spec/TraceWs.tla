------------------------------- MODULE TraceWs --------------------------------
(***************************************************************************)
(* Validation of tunnelled byte streams (harness cmd/weng) against         *)
(* WsConn.tla.  Every line is one Write, Read or Close on a real           *)
(* connection pair: a bare pair of pkg/websocket connections ("pair"), or  *)
(* dialer -> piko node(s) -> upstream listener ("tunnel1", "tunnel2").     *)
(* The payload byte at stream offset i is a fixed function of i, so a Read *)
(* line carries the offset its content proves (off, -1 if the content is   *)
(* not the expected run of bytes).                                         *)
(***************************************************************************)
EXTENDS WsConn, FiniteSets, Json, TLC

Log == ndJsonDeserialize("trace.ndjson")

Dirs == {"ab", "ba"}

VARIABLES l, viol, drift,
          wrote, got,    \* per direction: bytes written / delivered
          mq, mcur,      \* per direction: the message-level reader state of WsConn.tla (pair path only)
          closedBy       \* "" | "a" | "b"
tvars == <<vars, l, viol, drift, wrote, got, mq, mcur, closedBy>>

TraceInit ==
  /\ l = 1 /\ viol = {} /\ drift = 0
  /\ wrote = [x \in Dirs |-> 0] /\ got = [x \in Dirs |-> 0]
  /\ mq = [x \in Dirs |-> <<>>] /\ mcur = [x \in Dirs |-> -1]
  /\ closedBy = ""
  /\ Init

\* the direction whose writer is the end that closed
FromCloser(dir) == (closedBy = "a" /\ dir = "ab") \/ (closedBy = "b" /\ dir = "ba")

Violations(e) ==
  IF e.op = "W" THEN
    (IF closedBy = "" /\ (e.n # e.size \/ e.err # "") THEN {"WriteAccepted"} ELSE {})
  ELSE IF e.op = "R" THEN
    (IF e.n > 0 /\ e.off # got[e.dir] THEN {"NoLossNoDupNoReorder"} ELSE {})
    \cup (IF e.n > e.size THEN {"ReadWithinBuffer"} ELSE {})
    \cup (IF got[e.dir] + e.n > wrote[e.dir] THEN {"NothingFabricated"} ELSE {})
    \cup (IF e.n = 0 /\ e.err = "" THEN {"NeverZeroWithoutError"} ELSE {})
    \cup (IF closedBy = "" /\ wrote[e.dir] > got[e.dir] /\ e.n = 0 THEN {"Delivery"} ELSE {})
    \cup (IF closedBy # "" /\ e.n = 0 /\ e.err = "timeout" THEN {"EOSAfterClose"} ELSE {})
  ELSE IF e.op = "Bulk" THEN
    \* both directions at once: everything written arrives, exactly once, in order, unmodified
    (IF e.err # "" THEN {"WriteAccepted"} ELSE {})
    \cup (IF e.n # e.size THEN {"Delivery"} ELSE {})
    \cup (IF e.off # -1 THEN {"NoLossNoDupNoReorder"} ELSE {})
  ELSE IF e.op = "Burst" THEN
    \* one end writes a burst and closes at once; the slow reader still gets all of it, then end of stream
    (IF e.size = 0 THEN {"WriteAccepted"} ELSE {})
    \cup (IF e.n # e.size THEN {"Delivery"} ELSE {})
    \cup (IF e.off # -1 THEN {"NoLossNoDupNoReorder"} ELSE {})
    \cup (IF e.err \notin {"eof", "closed"} THEN {"EOSAfterClose"} ELSE {})
  ELSE {}

TraceNext ==
  /\ l <= Len(Log)
  /\ l' = l + 1
  /\ LET e == Log[l]
         reset == e.op = "Reset"
         rs == IF e.op = "R" /\ e.n > 0 THEN ReadStep(mq[e.dir], mcur[e.dir], e.size, e.n)
               ELSE [ok |-> TRUE, q |-> <<>>, cur |-> -1]
     IN /\ wrote' = IF reset THEN [x \in Dirs |-> 0]
                    ELSE IF e.op = "W" /\ e.n > 0 THEN [wrote EXCEPT ![e.dir] = @ + e.n]
                    ELSE IF e.op \in {"Bulk", "Burst"} THEN [wrote EXCEPT ![e.dir] = @ + e.size] ELSE wrote
        /\ got' = IF reset THEN [x \in Dirs |-> 0]
                  ELSE IF e.op = "R" /\ e.n > 0 THEN [got EXCEPT ![e.dir] = @ + e.n]
                  ELSE IF e.op \in {"Bulk", "Burst"} THEN [got EXCEPT ![e.dir] = @ + e.n] ELSE got
        /\ closedBy' = IF reset THEN "" ELSE IF e.op \in {"Close", "Burst"} THEN e.end ELSE closedBy
        /\ mq' = IF reset THEN [x \in Dirs |-> <<>>]
                 ELSE IF e.op = "W" /\ e.err = "" THEN [mq EXCEPT ![e.dir] = Append(@, e.size)]
                 ELSE IF e.op = "R" /\ e.n > 0 /\ rs.ok THEN [mq EXCEPT ![e.dir] = rs.q]
                 ELSE mq
        /\ mcur' = IF reset THEN [x \in Dirs |-> -1]
                   ELSE IF e.op = "R" /\ e.n > 0 /\ rs.ok THEN [mcur EXCEPT ![e.dir] = rs.cur]
                   ELSE mcur
        /\ viol' = IF reset THEN {} ELSE Violations(e)
        \* layer A (bare pair only): a Read returns at most the rest of the current message
        /\ drift' = drift + (IF e.op = "R" /\ e.n > 0 /\ e.path = "pair" /\ ~rs.ok THEN 1 ELSE 0)
        /\ UNCHANGED vars

TraceSpec == TraceInit /\ [][TraceNext]_tvars

NoStepViolation == viol = {}
Consumed ==
  /\ PrintT(<<"TRACE-RESULT", TLCGet("stats").diameter - 1, Len(Log)>>)
  /\ TLCGet("stats").diameter - 1 = Len(Log)
DriftReport == l <= Len(Log) \/ PrintT(<<"TRACE-COUNTERS", drift, 0, 0>>)
=============================================================================
