------------------------------- MODULE TraceL --------------------------------
(***************************************************************************)
(* Validation of upstream connection life cycles recorded from a real node *)
(* (harness cmd/peng, mode c16) against Lifecycle.tla.                     *)
(* A Life line is one command of the scenario driver (listen, go-away,     *)
(* client close, request with its status and the listener that served it,  *)
(* network drop, drop with a request in flight, shedding, server stop) and *)
(* what was read from the node once it was quiescent again: the manager's  *)
(* registry, the open sessions, the local routing entry, the published     *)
(* gossip keys (all as counts per endpoint).                               *)
(* The registry is observed as counts, so the specification's state is not *)
(* determined by a line: cands is the set of specification states that     *)
(* explain everything observed so far, advanced with the transition        *)
(* functions of LifecycleOps.tla (layer A: when no state explains a line,  *)
(* drift is counted and cands is rebuilt from the observation).            *)
(* Which connections are open is known exactly (the driver's own commands) *)
(* and equal in every candidate: the property is judged on the observation *)
(* against that (layer B, ObsViolations).                                  *)
(* An Expiry line reports when the server closed a connection whose token  *)
(* expires, relative to that expiry.                                       *)
(***************************************************************************)
EXTENDS LifecycleOps, Sequences, Json, TLC

Log == ndJsonDeserialize("trace.ndjson")

VARIABLES l, viol, drift, cands
tvars == <<l, viol, drift, cands>>

Cnt(arr, ep) ==
  IF \E i \in DOMAIN arr : arr[i].e = ep THEN arr[CHOOSE i \in DOMAIN arr : arr[i].e = ep].c ELSE 0
Known(arr) == \A i \in DOMAIN arr : arr[i].e \in Eps \/ arr[i].c = 0

\* every outcome the command can have
Loose(s, e) ==
  CASE e.ev = "listen" -> IF ListenOK(s, e.c) THEN {ListenF(s, e.c)} ELSE {}
    [] e.ev = "goaway" -> IF GoAwayOK(s, e.c) THEN {GoAwayF(s, e.c)} ELSE {}
    [] e.ev = "close" -> IF EndOK(s, e.c, "client-close") THEN {FinishF(s, e.c, "client-close")} ELSE {}
    [] e.ev \in {"drop", "drop-inflight"} -> IF EndOK(s, e.c, "drop") THEN {FinishF(s, e.c, "drop")} ELSE {}
    [] e.ev = "request" -> RequestSucc(s, e.e)
    [] e.ev = "shed" -> ShedSucc(s)
    [] e.ev = "stop" -> {StopF(s)}
    [] OTHER -> {s}

\* the logged outcome of a request: 200 from an open registered upstream of the endpoint, or 502 because the
\* upstream picked had announced go-away (and is removed) or because none is registered
OutcomeOK(s, t, e) ==
  IF e.ev # "request" THEN TRUE
  ELSE IF e.status = 200
       THEN t = s /\ e.served \in s.reg /\ s.cst[e.served] = "open" /\ Ep(e.served) = e.e
       ELSE IF e.status = 502
            THEN t # s \/ {c \in s.reg : Ep(c) = e.e} = {}
            ELSE FALSE

Matches(t, e) ==
  /\ \A ep \in Eps : Cnt(e.reg, ep) = CountOn(t.reg, ep) /\ Cnt(e.adv, ep) = t.adv[ep]
  /\ e.sess = Cardinality(t.sess)

\* every registry consistent with the observation
Rebase(t, e) ==
  LET rs == {R \in SUBSET AliveSet(t) : \A ep \in Eps : CountOn(R, ep) = Cnt(e.reg, ep)} IN
  IF rs = {} THEN {t} ELSE {[t EXCEPT !.reg = R, !.adv = [ep \in Eps |-> Cnt(e.adv, ep)]] : R \in rs}

\* Layer B.  t: any candidate (they agree on which connections are open)
ObsViolations(t, e) ==
  (IF e.sess # Cardinality(AliveSet(t)) THEN {"SessionsAreHandlers"} ELSE {})
  \cup (IF \E ep \in Eps : Cnt(e.reg, ep) < CountOn(OpenSet(t), ep) \/ Cnt(e.reg, ep) > CountOn(AliveSet(t), ep)
        THEN {"RegistryIsOpenConns"} ELSE {})
  \cup (IF \E ep \in Eps : Cnt(e.adv, ep) # Cnt(e.reg, ep) THEN {"AdvMatchesReg"} ELSE {})
  \cup (IF \E ep \in Eps : Cnt(e.gos, ep) # Cnt(e.adv, ep) THEN {"PublishedMatchesAdvertised"} ELSE {})
  \cup (IF ~Known(e.reg) \/ ~Known(e.adv) \/ ~Known(e.gos) THEN {"UnknownEndpoint"} ELSE {})
  \cup (IF AliveSet(t) = {} /\ (e.sess # 0 \/ \E ep \in Eps : Cnt(e.reg, ep) + Cnt(e.adv, ep) + Cnt(e.gos, ep) # 0)
        THEN {"AllGoneAdvertisesNothing"} ELSE {})
  \cup (IF e.ev = "stop" /\ e.conns # 0 THEN {"ShutdownClosesConnections"} ELSE {})
  \cup (IF e.ev = "request" /\ e.status = 200 /\ (e.served \notin Conn \/ (e.served \in Conn /\ ~AliveIn(t, e.served)))
        THEN {"ServedByClosedConnection"} ELSE {})

ExpiryViolations(e) ==
  IF e.disabled
  THEN (IF e.deltaMs # 99999 THEN {"NoCloseWhenDisabled"} ELSE {})
  ELSE (IF e.deltaMs < -150 THEN {"NotClosedBeforeExpiry"} ELSE {})
       \cup (IF e.deltaMs > 1500 THEN {"ClosedAtExpiry"} ELSE {})

\* a connection whose network path went silent (no FIN, no RST): the server's keep-alive (30 s interval, 10 s
\* write timeout) ends it; what remains is the other listener of the endpoint
StallViolations(e) ==
  (IF e.deltaMs > 45000 THEN {"SilentDropReleased"} ELSE {})
  \cup (IF e.deltaMs < 1000 THEN {"HealthyConnectionKept"} ELSE {})
  \cup (IF e.deltaMs <= 45000 /\ (e.sess # 1 \/ Cnt(e.reg, "e1") # 1 \/ Cnt(e.adv, "e1") # 1 \/ Cnt(e.gos, "e1") # 1)
        THEN {"RegistryIsOpenConns"} ELSE {})

\* a request that could not open a stream to a connected listener (its path was congested to a standstill)
\* is a failed dial, not the end of the connection: afterwards the listener is still registered and served
BacklogViolations(e) ==
  (IF e.sess # 1 \/ Cnt(e.reg, "e1") # 1 \/ Cnt(e.adv, "e1") # 1 \/ Cnt(e.gos, "e1") # 1
   THEN {"RegistryIsOpenConns"} ELSE {})
  \cup (IF e.status # 200 THEN {"ConnectedIsServed"} ELSE {})

TraceInit == l = 1 /\ viol = {} /\ drift = 0 /\ cands = {InitState}
TraceNext ==
  /\ l <= Len(Log)
  /\ l' = l + 1
  /\ LET e == Log[l] IN
     IF e.op = "Reset" THEN cands' = {InitState} /\ viol' = {} /\ drift' = drift
     ELSE IF e.op = "Expiry" THEN cands' = cands /\ viol' = ExpiryViolations(e) /\ drift' = drift
     ELSE IF e.op = "Stall" THEN cands' = cands /\ viol' = StallViolations(e) /\ drift' = drift
     ELSE IF e.op = "Backlog" THEN cands' = cands /\ viol' = BacklogViolations(e) /\ drift' = drift
     ELSE LET loose == UNION {Loose(s, e) : s \in cands}
              good == UNION {{t \in Loose(s, e) : OutcomeOK(s, t, e) /\ Matches(t, e)} : s \in cands}
              nxt == IF good # {} THEN good
                     ELSE IF loose # {} THEN UNION {Rebase(t, e) : t \in loose}
                     ELSE cands
          IN /\ cands' = nxt
             /\ drift' = drift + (IF good # {} THEN 0 ELSE 1)
             /\ viol' = ObsViolations(CHOOSE t \in nxt : TRUE, e)
TraceSpec == TraceInit /\ [][TraceNext]_tvars

NoStepViolation == viol = {}
\* the candidates are states of Lifecycle.tla: its invariants hold in each
CandidatesWellFormed ==
  \A s \in cands : /\ RegSubsetSessP(s) /\ AdvMatchesRegP(s) /\ RegistryIsOpenConnsP(s)
                   /\ AllGoneAdvertisesNothingP(s) /\ SessionsAreHandlersP(s)
Consumed ==
  /\ PrintT(<<"TRACE-RESULT", TLCGet("stats").diameter - 1, Len(Log)>>)
  /\ TLCGet("stats").diameter - 1 = Len(Log)
DriftReport == l <= Len(Log) \/ PrintT(<<"TRACE-COUNTERS", drift, 0, 0>>)
=============================================================================
