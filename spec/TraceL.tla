------------------------------- MODULE TraceL --------------------------------
(***************************************************************************)
(* Validation of upstream connection life cycles on a real node (harness   *)
(* cmd/peng, mode c16) against the invariants of Lifecycle.tla.            *)
(* A Life line is written at quiescence after an event (connect, client    *)
(* close, go-away, request, network drop, shedding, server shutdown): it   *)
(* lists every listener with its endpoint and client-side state, and what  *)
(* was read from the node: the manager's registry, the open sessions, the  *)
(* local routing entry and the published gossip keys.                      *)
(* An Expiry line reports when the server closed a connection whose token  *)
(* expires, relative to that expiry.                                       *)
(***************************************************************************)
EXTENDS Integers, Sequences, FiniteSets, Json, TLC

Log == ndJsonDeserialize("trace.ndjson")

VARIABLES l, viol
tvars == <<l, viol>>

ECOf(arr) == [x \in {arr[i].e : i \in DOMAIN arr} |-> arr[CHOOSE i \in DOMAIN arr : arr[i].e = x].c]

\* Lifecycle.tla at quiescence: registered = connections that are open or announced go-away and were not yet
\* dropped by the proxy; sessions = connections not closed; advertised = registered
Registered(lst) ==
  LET idx(e) == {i \in DOMAIN lst : lst[i].e = e /\ lst[i].st \in {"connected", "goaway"}}
      eps == {lst[i].e : i \in {j \in DOMAIN lst : lst[j].st \in {"connected", "goaway"}}}
  IN [e \in eps |-> Cardinality(idx(e))]
Sessions(lst) == Cardinality({i \in DOMAIN lst : lst[i].st # "closed"})

LifeViolations(e) ==
  (IF ECOf(e.reg) # Registered(e.lst) THEN {"RegistryIsOpenConns"} ELSE {})
  \cup (IF e.sess # Sessions(e.lst) THEN {"SessionsAreHandlers"} ELSE {})
  \cup (IF ECOf(e.adv) # ECOf(e.reg) THEN {"AdvMatchesReg"} ELSE {})
  \cup (IF ECOf(e.gos) # ECOf(e.adv) THEN {"PublishedMatchesAdvertised"} ELSE {})
  \cup (IF Sessions(e.lst) = 0 /\ (e.reg # <<>> \/ e.adv # <<>> \/ e.gos # <<>> \/ e.sess # 0)
        THEN {"AllGoneAdvertisesNothing"} ELSE {})

ExpiryViolations(e) ==
  IF e.disabled
  THEN (IF e.deltaMs # 99999 THEN {"NoCloseWhenDisabled"} ELSE {})
  ELSE (IF e.deltaMs < -150 THEN {"NotClosedBeforeExpiry"} ELSE {})
       \cup (IF e.deltaMs > 700 THEN {"ClosedAtExpiry"} ELSE {})

TraceInit == l = 1 /\ viol = {}
TraceNext ==
  /\ l <= Len(Log)
  /\ l' = l + 1
  /\ LET e == Log[l] IN
     viol' = IF e.op = "Life" THEN LifeViolations(e)
             ELSE IF e.op = "Expiry" THEN ExpiryViolations(e)
             ELSE {}
TraceSpec == TraceInit /\ [][TraceNext]_tvars

NoStepViolation == viol = {}
Consumed ==
  /\ PrintT(<<"TRACE-RESULT", TLCGet("stats").diameter - 1, Len(Log)>>)
  /\ TLCGet("stats").diameter - 1 = Len(Log)
DriftReport == l <= Len(Log) \/ PrintT(<<"TRACE-COUNTERS", 0, 0, 0>>)
=============================================================================
