------------------------------- MODULE UpInd ---------------------------------
(***************************************************************************)
(* C05 (and the structural part of C15), unbounded in the length of the    *)
(* history: the registry actions of Upstreams.tla (AddLocal, RemoveLocal,  *)
(* AddConn, RemoveConn, CloseSess - the same text, without the ghost and   *)
(* output variables recent, wait, last and without the remote node) with   *)
(* an inductive invariant that Apalache discharges for every partition of  *)
(* up to five upstream identities over the two endpoints and runs of any   *)
(* length, with removals repeated any number of times:                     *)
(* the count kept by the cluster state and the published count equal the   *)
(* number of registered upstreams, an endpoint is published iff it has a   *)
(* registered upstream, the balancer's cursor is in range, no upstream is  *)
(* registered twice or under another endpoint.                             *)
(*   apalache-mc check --cinit=CInit --init=IndInit --inv=IndInv --length=1*)
(*   apalache-mc check --cinit=CInit --init=Init --inv=IndInv --length=0   *)
(***************************************************************************)
EXTENDS Integers, Sequences, FiniteSets, Apalache

CONSTANTS
  \* @type: Set(Str);
  UpE1,
  \* @type: Set(Str);
  UpE2

VARIABLES
  \* @type: Str -> { ups: Seq(Str), next: Int };
  lb,
  \* @type: Str -> Int;
  count,
  \* @type: Str -> Int;
  pub,
  \* @type: Set(Str);
  added,
  \* @type: Set(Str);
  closed

Universe == {"u1", "u2", "u3", "u4", "u5"}
MaxU == 5
CInit == UpE1 \in SUBSET Universe /\ UpE2 \in SUBSET Universe /\ UpE1 \cap UpE2 = {}

Up == UpE1 \cup UpE2
EpOf == [u \in Up |-> IF u \in UpE1 THEN "e1" ELSE "e2"]
Ep == {"e1", "e2"}

\* @type: (Str -> a, Str, a) => (Str -> a);
Set(f, k, v) == [x \in DOMAIN f \cup {k} |-> IF x = k THEN v ELSE f[x]]
\* @type: (Str -> a, Str) => (Str -> a);
Del(f, k) == [x \in DOMAIN f \ {k} |-> f[x]]
\* @type: Seq(Str) => Set(Str);
Range(s) == {s[i] : i \in DOMAIN s}

Registered(e) == IF e \in DOMAIN lb THEN Range(lb[e].ups) ELSE {}

\* @type: Set(Str);
NoEp == {}

Init ==
  /\ lb = [e \in NoEp |-> [ups |-> <<>>, next |-> 0]]
  /\ count = [e \in NoEp |-> 0]
  /\ pub = [e \in NoEp |-> 0]
  /\ added = {} /\ closed = {}

\* AddLocalEndpoint + onLocalEndpointUpdate
AddLocal(e) ==
  LET c == (IF e \in DOMAIN count THEN count[e] ELSE 0) + 1
  IN count' = Set(count, e, c) /\ pub' = Set(pub, e, c)

\* RemoveLocalEndpoint + onLocalEndpointUpdate (a count of 0 is only warned about)
RemoveLocal(e) ==
  IF e \notin DOMAIN count THEN UNCHANGED <<count, pub>>
  ELSE IF count[e] > 1 THEN count' = Set(count, e, count[e] - 1) /\ pub' = Set(pub, e, count[e] - 1)
  ELSE count' = Del(count, e) /\ pub' = Del(pub, e)

AddConn(u) ==
  /\ u \notin added
  /\ LET e == EpOf[u]
         old == IF e \in DOMAIN lb THEN lb[e] ELSE [ups |-> <<>>, next |-> 0]
     IN /\ lb' = Set(lb, e, [old EXCEPT !.ups = Append(@, u)])
        /\ AddLocal(e)
  /\ added' = added \cup {u}
  /\ UNCHANGED <<closed>>

\* loadBalancer.Remove + the repaired RemoveConn: the cluster count changes only
\* if the upstream was still registered
RemoveConn(u) ==
  /\ u \in added
  /\ LET e == EpOf[u] IN
     IF e \notin DOMAIN lb \/ u \notin Range(lb[e].ups)
     THEN UNCHANGED <<lb, count, pub>>
     ELSE LET i == CHOOSE j \in DOMAIN lb[e].ups : lb[e].ups[j] = u
              ups2 == SubSeq(lb[e].ups, 1, i - 1) \o SubSeq(lb[e].ups, i + 1, Len(lb[e].ups))
          IN /\ IF ups2 = <<>> THEN lb' = Del(lb, e)
                ELSE lb' = Set(lb, e, [ups |-> ups2, next |-> lb[e].next % Len(ups2)])
             /\ RemoveLocal(e)
  /\ closed' = closed \ {u}
  /\ UNCHANGED <<added>>

\* the session of a registered upstream ends (the client went away, the network dropped):
\* nothing in the registry changes until the handler's deferred RemoveConn runs
CloseSess(u) ==
  /\ u \in Registered(EpOf[u]) /\ u \notin closed
  /\ closed' = closed \cup {u}
  /\ UNCHANGED <<lb, count, pub, added>>

\* Select on an endpoint with local upstreams: only the cursor moves
SelectLocal(e) ==
  /\ e \in DOMAIN lb
  /\ LET n == Len(lb[e].ups) IN lb' = [lb EXCEPT ![e].next = (@ + 1) % n]
  /\ UNCHANGED <<count, pub, added, closed>>

Next ==
  \/ \E u \in Up : AddConn(u)
  \/ \E u \in Up : RemoveConn(u)
  \/ \E u \in Up : CloseSess(u)
  \/ \E e \in Ep : SelectLocal(e)

-----------------------------------------------------------------------------
TypeOK ==
  /\ lb = Gen(MaxU)
  /\ count = Gen(2) /\ pub = Gen(2)
  /\ added = Gen(MaxU) /\ closed = Gen(MaxU)

CountsMatch ==
  /\ DOMAIN count = DOMAIN lb
  /\ \A e \in DOMAIN lb : count[e] = Len(lb[e].ups) /\ count[e] > 0
PublishedMatches == pub = count
AdvertisedIffConnected == \A e \in Ep : (e \in DOMAIN pub) <=> (Registered(e) # {})
ClosedAreRegistered == \A u \in closed : u \in Up /\ u \in Registered(EpOf[u])
CursorInRange == \A e \in DOMAIN lb : lb[e].next \in 0..(Len(lb[e].ups) - 1)
NoDuplicates == \A e \in DOMAIN lb : \A i, j \in DOMAIN lb[e].ups : lb[e].ups[i] = lb[e].ups[j] => i = j
RightEndpoint == \A e \in DOMAIN lb : \A u \in Range(lb[e].ups) : u \in Up /\ EpOf[u] = e

IndInv ==
  /\ DOMAIN lb \subseteq Ep
  /\ added \subseteq Up
  /\ \A e \in DOMAIN lb : Len(lb[e].ups) <= MaxU /\ Range(lb[e].ups) \subseteq added
  /\ CountsMatch /\ PublishedMatches /\ AdvertisedIffConnected
  /\ ClosedAreRegistered /\ CursorInRange /\ NoDuplicates /\ RightEndpoint

IndInit == TypeOK /\ IndInv
=============================================================================
