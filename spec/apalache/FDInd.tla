------------------------------- MODULE FDInd ---------------------------------
(***************************************************************************)
(* C12, unbounded: the arrival window of FailureDetector.tla (the same     *)
(* AddSample, without the ghost history) with an inductive invariant that  *)
(* Apalache discharges for runs of any length and samples of any size:     *)
(* the running sum is the sum of the samples the buffer holds, the index   *)
(* stays in range, the window never holds more than W samples.             *)
(*   apalache-mc check --cinit=CInit --init=IndInit --inv=IndInv --length=1*)
(*   apalache-mc check --cinit=CInit --init=Init --inv=IndInv --length=0   *)
(***************************************************************************)
EXTENDS Integers, Apalache

CONSTANTS
  \* @type: Int;
  W,
  \* @type: Int;
  B

VARIABLES
  \* @type: Int -> Int;
  buf,
  \* @type: Int;
  index,
  \* @type: Bool;
  isFull,
  \* @type: Int;
  sum,
  \* @type: Bool;
  seen

MaxW == 8
CInit == W \in 1..MaxW /\ B \in 1..1000000

Slots == {i \in 0..(MaxW - 1) : i < W}

Init ==
  /\ buf = [i \in Slots |-> 0]
  /\ index = 0 /\ isFull = FALSE /\ sum = 0 /\ seen = FALSE

\* arrivalIntervals.Add (verbatim from FailureDetector.tla, minus hist)
AddSample(x) ==
  LET idx == IF index = W THEN 0 ELSE index
      full == isFull \/ index = W
      s1 == IF full THEN sum - buf[idx] ELSE sum
  IN /\ buf' = [buf EXCEPT ![idx] = x]
     /\ index' = idx + 1
     /\ isFull' = full
     /\ sum' = s1 + x

Report(gap) ==
  /\ IF seen THEN AddSample(gap) ELSE AddSample(B)
  /\ seen' = TRUE

\* the level of a peer without a window is asked for: the query is its first arrival
FirstQuery == ~seen /\ AddSample(B) /\ seen' = TRUE

\* the peer's window is discarded
Remove ==
  /\ seen
  /\ buf' = [i \in Slots |-> 0]
  /\ index' = 0 /\ isFull' = FALSE /\ sum' = 0 /\ seen' = FALSE

Next == (\E gap \in Nat : gap >= 1 /\ Report(gap)) \/ FirstQuery \/ Remove

Size == IF isFull THEN W ELSE index
SumBuf == ApaFoldSet(LAMBDA acc, i : acc + buf[i], 0, {i \in Slots : i < Size})

TypeOK ==
  /\ buf \in [Slots -> Int]
  /\ index \in 0..MaxW /\ isFull \in BOOLEAN /\ sum \in Int /\ seen \in BOOLEAN

IndInv ==
  /\ index \in 0..W
  /\ (isFull => index \in 1..W)
  /\ (seen <=> (index > 0 \/ isFull))
  /\ Size \in 0..W
  /\ \A i \in Slots : (i < Size => buf[i] >= 1) /\ (i >= Size => buf[i] = 0)
  /\ sum = SumBuf
  /\ (seen => sum >= Size)

IndInit == TypeOK /\ IndInv
=============================================================================
