------------------------------- MODULE TraceF --------------------------------
(***************************************************************************)
(* Validation of the real accrual failure detector (harness cmd/feng)      *)
(* against FailureDetector.tla.  A Report line carries the gap since the   *)
(* previous arrival and the arrival window read back from the detector; a  *)
(* Query line carries the time since the last arrival and the suspicion    *)
(* level the detector returned (times 10000, rounded).  The window         *)
(* variables are bound from the line; hist is maintained from the calls.   *)
(* The detector holds several peers; a trace is one peer's view of it:     *)
(* "Remove" discards this peer's window, "QueryNew" asks for the level of  *)
(* this peer while it has no window, and "Other" is any call that names    *)
(* another peer, which must be a stuttering step of this peer's window.    *)
(***************************************************************************)
EXTENDS FailureDetector, Json, TLC

Log == ndJsonDeserialize("trace.ndjson")

VARIABLES l, viol, drift
tvars == <<vars, l, viol, drift>>

TraceInit == l = 1 /\ viol = {} /\ drift = 0 /\ Init

BufOf(e) == [i \in 0..(W - 1) |-> e.buf[i + 1]]

\* |level - d*size/sum| <= 1e-4 + rounding, in integers:  |L*sum - d*size*10000| <= sum
LevelExact(e) ==
  /\ ~e.nan
  /\ sum > 0
  /\ LET lhs == e.level * sum
         rhs == e.gap * Size * 10000
     IN (IF lhs > rhs THEN lhs - rhs ELSE rhs - lhs) <= sum

StepViolations(e) ==
  IF e.op = "Query"
  THEN (IF ~LevelExact(e) THEN {"PhiExact"} ELSE {})
       \cup (IF e.gap = 0 /\ e.level # 0 THEN {"ZeroAtArrival"} ELSE {})
       \cup (IF buf' # buf \/ index' # index \/ sum' # sum \/ isFull' # isFull THEN {"QueryIsPure"} ELSE {})
  ELSE IF e.op = "QueryNew"
  THEN (IF e.nan \/ e.level # 0 THEN {"ZeroAtArrival"} ELSE {})
  ELSE IF e.op = "Other"
  THEN (IF buf' # buf \/ index' # index \/ sum' # sum \/ isFull' # isFull \/ seen' # seen
        THEN {"PeersAreIndependent"} ELSE {})
  ELSE {}

TraceNext ==
  /\ l <= Len(Log)
  /\ l' = l + 1
  /\ LET e == Log[l]
         reset == e.op = "Reset"
     IN /\ buf' = BufOf(e)
        /\ index' = e.index
        /\ isFull' = e.isFull
        /\ sum' = e.sum
        /\ seen' = e.seen
        /\ hist' = IF reset THEN <<>>
                   ELSE IF e.op = "Report" THEN Append(hist, IF seen THEN e.gap ELSE B)
                   ELSE IF e.op = "QueryNew" THEN Append(hist, B)
                   ELSE IF e.op = "Remove" THEN <<>>
                   ELSE hist
        /\ viol' = StepViolations(e)
        /\ drift' = drift + (IF \/ reset \/ e.op \in {"Query", "Other"}
                                 \/ (e.op = "Report" /\ Report(e.gap))
                                 \/ (e.op = "QueryNew" /\ FirstQuery)
                                 \/ (e.op = "Remove" /\ (Remove \/ (~seen /\ UNCHANGED vars)))
                              THEN 0 ELSE 1)

TraceSpec == TraceInit /\ [][TraceNext]_tvars

NoStepViolation == viol = {}
Consumed ==
  /\ PrintT(<<"TRACE-RESULT", TLCGet("stats").diameter - 1, Len(Log)>>)
  /\ TLCGet("stats").diameter - 1 = Len(Log)
DriftReport == l <= Len(Log) \/ PrintT(<<"TRACE-COUNTERS", drift, 0, 0>>)
=============================================================================
