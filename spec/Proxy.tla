-------------------------------- MODULE Proxy --------------------------------
(***************************************************************************)
(* C06 / C01: how a request for endpoint E travels through the cluster.    *)
(*   server/proxy/httpproxy.go, tcpproxy.go   ServeHTTP: forwarded :=      *)
(*       x-piko-forward == "true"; Select(E, !forwarded); set the header   *)
(*   server/upstream/manager.go               Select: local first, else a  *)
(*       remote node from cluster.State.LookupEndpoint if allowed          *)
(*                                                                         *)
(* A configuration: which nodes really have an upstream for E (has), what  *)
(* every node believes about the others (bel[n] = nodes n believes serve   *)
(* E - any subset, right or wrong), which nodes are up, the entry node and *)
(* what the client itself says about the marker (ext):                     *)
(*   "none"    nothing                                                     *)
(*   "forged"  x-piko-forward: true  (the request counts as forwarded)     *)
(*   "false"   x-piko-forward: false                                       *)
(*   "hide"    Connection: x-piko-forward (asks every hop to drop the      *)
(*             marker as a hop-by-hop header)                              *)
(* Only "forged" has an effect: whatever else the client sends, a request  *)
(* that was forwarded carries the marker.  One action per handler          *)
(* invocation.                                                             *)
(* A node may also hold an upstream that is still registered but has told  *)
(* the server it accepts no more connections (gone: yamux go-away, e.g. a   *)
(* listener that is closing or being rebalanced): Select picks it, the      *)
(* dial reports ErrGone, the proxy removes it (dereg) and answers 502 -     *)
(* the request is not sent anywhere else, forwarded or not.                 *)
(* The accepting upstream of a node may also be the reconnection of a      *)
(* listener whose previous upstream went away (rejoin): the old upstream   *)
(* was removed by a request (ErrGone), the listener connected again, and   *)
(* only then did the old session end and its handler's deferred removal    *)
(* run - a removal of something no longer registered.  That history must   *)
(* not matter: such a node serves locally like any other.                  *)
(***************************************************************************)
EXTENDS Integers, FiniteSets, Sequences

CONSTANTS Node,
          MaxGone  \* bound on the number of nodes whose only upstream has gone away (model only)

ExtKinds == {"none", "forged", "false", "hide"}

VARIABLES has,     \* nodes with a local upstream for E that accepts connections
          gone,    \* nodes whose only registered upstream for E has gone away
          dereg,   \* nodes that removed their gone upstream from the registry
          rejoin,  \* nodes in has whose upstream is a reconnection after a go-away (see above)
          bel,     \* bel[n] \subseteq Node \ {n}
          up,      \* nodes that accept connections
          at,      \* node handling the request now ("" when finished)
          fwd,     \* the request carries x-piko-forward: true
          hops,    \* inter-node hops taken
          runs,    \* runs[n]: proxy handler invocations on n
          outcome, \* "" | "served" | "502"
          servedBy,
          entry, ext

vars == <<has, gone, dereg, rejoin, bel, up, at, fwd, hops, runs, outcome, servedBy, entry, ext>>

Init ==
  /\ has \in SUBSET Node
  /\ gone \in {g \in SUBSET (Node \ has) : Cardinality(g) <= MaxGone}
  /\ dereg = {}
  /\ rejoin \in {r \in SUBSET has : Cardinality(r) <= MaxGone}
  /\ bel \in [Node -> SUBSET Node]
  /\ \A n \in Node : n \notin bel[n]
  /\ up \in SUBSET Node
  /\ entry \in up
  /\ ext \in ExtKinds
  /\ at = entry /\ fwd = (ext = "forged")
  /\ hops = 0 /\ runs = [n \in Node |-> 0]
  /\ outcome = "" /\ servedBy = ""

\* one invocation of the proxy handler on node at
Handle ==
  /\ at # ""
  /\ runs' = [runs EXCEPT ![at] = @ + 1]
  /\ IF at \in has
     THEN /\ outcome' = "served" /\ servedBy' = at /\ at' = "" /\ UNCHANGED <<fwd, hops, dereg>>
     ELSE IF at \in gone \ dereg       \* Select returns the gone upstream; its dial reports ErrGone
     THEN /\ outcome' = "502" /\ at' = "" /\ dereg' = dereg \cup {at} /\ UNCHANGED <<servedBy, fwd, hops>>
     ELSE IF fwd \/ bel[at] = {}
     THEN /\ outcome' = "502" /\ at' = "" /\ UNCHANGED <<servedBy, fwd, hops, dereg>>
     ELSE \E m \in bel[at] :          \* LookupEndpoint returns any believed node
            IF m \in up
            THEN at' = m /\ fwd' = TRUE /\ hops' = hops + 1 /\ UNCHANGED <<outcome, servedBy, dereg>>
            ELSE outcome' = "502" /\ at' = "" /\ UNCHANGED <<servedBy, fwd, hops, dereg>>   \* dial fails
  /\ UNCHANGED <<has, gone, rejoin, bel, up, entry, ext>>

Next == Handle
Spec == Init /\ [][Next]_vars /\ WF_vars(Next)

-----------------------------------------------------------------------------
AtMostOneHop == hops <= 1
HandlerRunsBounded ==
  /\ \A n \in Node : runs[n] <= 1
  /\ Cardinality({n \in Node : runs[n] > 0}) <= 2
LocalPreferred == (outcome # "" /\ entry \in has) => (outcome = "served" /\ servedBy = entry /\ hops = 0)
ForwardedNeverForwards == ext = "forged" => hops = 0
ServedOnlyByRealUpstream == outcome = "served" => servedBy \in has
\* a gone upstream is only ever removed by a handler that ran on its node
DeregOnlyWhereHandled == dereg \subseteq {n \in gone : runs[n] > 0}
OutcomeWhenDone == at = "" => outcome \in {"served", "502"}
Terminates == <>(at = "")

\* C01 (settled routing): when beliefs are exactly the truth about the nodes
\* that are up, every node serves E iff some up node has an upstream for it
Settled == \A n \in Node : bel[n] = (has \cap up) \ {n}
SettledServes ==
  (Settled /\ gone = {} /\ ext # "forged" /\ at = "" /\ has \subseteq up) =>
     (outcome = "served" <=> has # {})
=============================================================================
