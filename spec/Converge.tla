------------------------------ MODULE Converge -------------------------------
(***************************************************************************)
(* C03: after local updates stop, gossip over a network that eventually    *)
(* delivers makes every live node's view of every live node identical to   *)
(* that node's own state.                                                  *)
(*                                                                         *)
(* quiet = FALSE: writes, compaction, rounds, deliveries, loss.            *)
(* quiet = TRUE : no more writes and no more loss; rounds between every    *)
(*                ordered pair and the delivery of every datagram are      *)
(*                fair (rounds strongly: a round needs room in the bounded *)
(*                network).  Packet budgets still truncate deltas.         *)
(***************************************************************************)
EXTENDS Gossip

VARIABLE quiet
cvars == <<vars, quiet>>

CInit == Init /\ quiet = FALSE

Quiesce == ~quiet /\ quiet' = TRUE /\ UNCHANGED vars

Writes ==
  \/ \E n \in Writers, k \in Key, v \in Val : DoUpsert(n, k, v)
  \/ \E n \in Writers, k \in Key : DoDelete(n, k)
  \/ \E n \in Writers : DoCompact(n)

\* The bound on datagrams in flight is a model artefact (a datagram that finds no free slot is lost at once).
\* Once the network "eventually delivers" (quiet) a round is only started when its own traffic and that of the
\* rounds already in flight fits: a digest request needs a spare slot when it is answered (delta + digest).
ReqInFlight == Cardinality({s \in DOMAIN net : net[s].t = "dig" /\ net[s].req})
Round(a, b) == (quiet => Cardinality(FreeSlots) >= 2 + ReqInFlight) /\ DoRound(a, b)
Deliver(slot) ==
  \/ \E cut \in 0..MaxCut : DoRecvDigest(slot, FALSE, cut)
  \/ DoRecvDelta(slot, FALSE)

CNext ==
  \/ (~quiet /\ Writes /\ UNCHANGED quiet)
  \/ (~quiet /\ (\E slot \in 1..MaxSlots : DoLose(slot)) /\ UNCHANGED quiet)
  \/ Quiesce
  \/ (\E a, b \in Node : Round(a, b)) /\ UNCHANGED quiet
  \/ (\E slot \in 1..MaxSlots : Deliver(slot)) /\ UNCHANGED quiet

Fairness ==
  \* strong fairness: a round can only start while there is room for its traffic, which other rounds keep using
  /\ \A a, b \in Node : SF_cvars(Round(a, b) /\ UNCHANGED quiet)
  /\ \A slot \in 1..MaxSlots : WF_cvars(Deliver(slot) /\ UNCHANGED quiet)
  /\ WF_cvars(Quiesce)

CSpec == CInit /\ [][CNext]_cvars /\ Fairness

EventuallyConverged == quiet ~> ConvergedLive
ConvergenceIsStable == [][(quiet /\ ConvergedLive) => ConvergedLive']_cvars
PullProgress == [][PullProgressStep]_cvars

CView == <<st, net, quiet>>
=============================================================================
