------------------------------- MODULE TraceC --------------------------------
(***************************************************************************)
(* Validation of node-loss scenarios on real piko processes (harness       *)
(* cmd/peng, mode c18) against the properties of Cluster.tla, in their     *)
(* bounded-time form.  A Loss line names the victim, the phase at which it *)
(* was lost and how (SIGTERM / SIGKILL), and carries the named             *)
(* observations made on the survivors and the upstream listeners.          *)
(*   terminates_within_grace            ~ StopTerminates (within the grace period)       *)
(*   left_at_once                       ~ NotifiedStopRoutingAtOnce                      *)
(*   stopped_advertising                ~ StoppedNodeAdvertisesNothing / LeftViewsAreEmpty *)
(*   listeners_reconnected, served_again_from_every_survivor ~ EventuallyRecovered       *)
(*   victim_excluded_from_routing       ~ NeverRouteToLeft (left or unreachable)         *)
(***************************************************************************)
EXTENDS Integers, Sequences, FiniteSets, Json, TLC

Log == ndJsonDeserialize("trace.ndjson")

VARIABLES l, viol
tvars == <<l, viol>>

Required(e) ==
  (IF ~e.kill THEN {"terminates_within_grace", "left_at_once", "stopped_advertising"} ELSE {})
  \cup (IF e.phase # "idle" THEN {"listeners_reconnected", "served_again_from_every_survivor"} ELSE {})
  \cup {"victim_excluded_from_routing", "never_wrong_endpoint"}

Passed(e) == {e.checks[i].name : i \in {j \in DOMAIN e.checks : e.checks[j].ok}}
Failed(e) == {e.checks[i].name : i \in {j \in DOMAIN e.checks : ~e.checks[j].ok}}

LossViolations(e) == (Required(e) \ Passed(e)) \cup Failed(e)

\* StopOrder line: a node with e.sess upstream connections was stopped gracefully; e.note is the status its
\* peer holds for it afterwards and e.status the number of endpoints the peer still holds for it
StopOrderViolations(e) ==
  (IF e.note # "left" THEN {"NotifiedStopRoutingAtOnce"} ELSE {})
  \cup (IF e.status # 0 THEN {"LeftViewsAreEmpty"} ELSE {})

TraceInit == l = 1 /\ viol = {}
TraceNext ==
  /\ l <= Len(Log)
  /\ l' = l + 1
  /\ viol' = IF Log[l].op = "Loss" THEN LossViolations(Log[l])
             ELSE IF Log[l].op = "StopOrder" THEN StopOrderViolations(Log[l])
             ELSE {}
TraceSpec == TraceInit /\ [][TraceNext]_tvars

NoStepViolation == viol = {}
Consumed ==
  /\ PrintT(<<"TRACE-RESULT", TLCGet("stats").diameter - 1, Len(Log)>>)
  /\ TLCGet("stats").diameter - 1 = Len(Log)
DriftReport == l <= Len(Log) \/ PrintT(<<"TRACE-COUNTERS", 0, 0, 0>>)
=============================================================================
