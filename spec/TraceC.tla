------------------------------- MODULE TraceC --------------------------------
(***************************************************************************)
(* Validation of node-loss scenarios on real piko processes (harness       *)
(* cmd/peng, mode c18) against Cluster.tla.                                *)
(* A Loss line names the victim, the phase at which it was lost and how    *)
(* (SIGTERM / SIGKILL), and carries                                        *)
(*  - tl: the time line recorded while it happened: what the driver did    *)
(*    (lose = SIGTERM or the decision to kill, kill = SIGKILL, exited) and *)
(*    what every node's admin port showed whenever it changed: its routing *)
(*    table (view: per other node status + endpoints) and its own registry *)
(*    (reg).  The time line must be explainable by Cluster.tla: the        *)
(*    driver's events are Lose / Kill, everything else happens in          *)
(*    Background steps between the observations, and every observation     *)
(*    must equal the specification's state of that node (layer A; a time   *)
(*    line that cannot be followed to its end counts as drift);            *)
(*  - checks: the bounded-time forms of the properties, measured by the    *)
(*    driver (layer B, together with the invariants that can be evaluated  *)
(*    on an observation alone):                                            *)
(*      terminates_within_grace            ~ StopTerminates                *)
(*      left_at_once                       ~ NotifiedStopRoutingAtOnce     *)
(*      stopped_advertising                ~ StoppedNodeAdvertisesNothing  *)
(*      listeners_reconnected, served_again_from_every_survivor            *)
(*                                         ~ EventuallyRecovered           *)
(*      victim_excluded_from_routing       ~ NeverRouteToLeft              *)
(* A StopOrder line: a node with many upstream connections was stopped     *)
(* gracefully; what its peer holds for it afterwards.                      *)
(***************************************************************************)
EXTENDS Cluster, Json, TLC

Log == ndJsonDeserialize("trace.ndjson")

VARIABLES l,       \* line
          i,       \* 0: between lines; k >= 1: the next event of line l's time line
          viol, drift,
          wasLeft  \* wasLeft[o] : nodes that o has shown as left in this scenario
tvars == <<vars, l, i, viol, drift, wasLeft>>

SetOf(arr) == {arr[k] : k \in DOMAIN arr}

Required(e) ==
  (IF ~e.kill THEN {"terminates_within_grace", "left_at_once", "stopped_advertising"} ELSE {})
  \cup (IF e.phase # "idle" THEN {"listeners_reconnected", "served_again_from_every_survivor"} ELSE {})
  \cup {"victim_excluded_from_routing", "never_wrong_endpoint"}
Passed(e) == {e.checks[k].name : k \in {j \in DOMAIN e.checks : e.checks[j].ok}}
Failed(e) == {e.checks[k].name : k \in {j \in DOMAIN e.checks : ~e.checks[j].ok}}
LossViolations(e) == (Required(e) \ Passed(e)) \cup Failed(e)

StopOrderViolations(e) ==
  (IF e.note # "left" THEN {"NotifiedStopRoutingAtOnce"} ELSE {})
  \cup (IF e.status # 0 THEN {"LeftViewsAreEmpty"} ELSE {})

\* ---- observations ----------------------------------------------------------
ObsOf(ev, n) == ev.views[CHOOSE k \in DOMAIN ev.views : ev.views[k].n = n]
HasObs(ev, n) == \E k \in DOMAIN ev.views : ev.views[k].n = n

\* the specification's state of node ev.o equals what its admin port showed
MatchesView(ev) ==
  \A n \in Node \ {ev.o} :
    /\ HasObs(ev, n)
    /\ ObsOf(ev, n).st = StOf(ev.o, n)
    /\ SetOf(ObsOf(ev, n).eps) = EpsOf(ev.o, n)
MatchesReg(ev) == SetOf(ev.reg) = reg[ev.o]

\* judged on the observation alone
ViewViolations(ev) ==
  (IF \E k \in DOMAIN ev.views : ev.views[k].st = "left" /\ ev.views[k].eps # <<>>
   THEN {"LeftViewsAreEmpty"} ELSE {})
  \cup (IF \E k \in DOMAIN ev.views : ev.views[k].n \in wasLeft[ev.o] /\ ev.views[k].st # "left"
        THEN {"LeftIsFinal"} ELSE {})
LeftIn(ev) == {ev.views[k].n : k \in {j \in DOMAIN ev.views : ev.views[j].st = "left"}}
\* a registry read from the node after its proxy port was seen closed: the node closes its proxy only once it
\* no longer has (and advertises) upstreams
RegViolations(ev) ==
  IF ev.after = "proxy-closed" /\ ev.reg # <<>> THEN {"StoppedNodeAdvertisesNothing"} ELSE {}

\* ---- the trace --------------------------------------------------------------
NoConn == [x \in Lsn |-> "none"]
\* the state of Cluster.tla in which the listeners are connected as c says (InitFor, for the next state)
SetTo(c) ==
  /\ phase' = [n \in Node |-> "up"]
  /\ conn' = c
  /\ reg' = [n \in Node |-> {x \in Lsn : c[x] = n}]
  /\ pub' = [n \in Node |-> <<[eps |-> {x \in Lsn : c[x] = n}, left |-> FALSE]>>]
  /\ view' = [o \in Node |-> [n \in Node |-> [ver |-> 1, unreach |-> FALSE]]]
  /\ victim' = ""

TraceInit ==
  /\ l = 1 /\ i = 0 /\ viol = {} /\ drift = 0 /\ wasLeft = [o \in Node |-> {}]
  /\ InitFor(NoConn)
  /\ TLCSet(1, 0) /\ TLCSet(2, 1000000)

\* a line that is not a loss scenario
PlainLine ==
  /\ i = 0 /\ l <= Len(Log) /\ Log[l].op # "Loss"
  /\ l' = l + 1 /\ i' = 0
  /\ viol' = IF Log[l].op = "StopOrder" THEN StopOrderViolations(Log[l]) ELSE {}
  /\ UNCHANGED <<vars, drift, wasLeft>>

\* a loss scenario starts: the listeners are where the driver put them
StartLoss ==
  /\ i = 0 /\ l <= Len(Log) /\ Log[l].op = "Loss"
  /\ LET e == Log[l] IN SetTo([x \in Lsn |-> IF e.phase = "idle" THEN "none" ELSE e.victim])
  /\ i' = 1 /\ viol' = {} /\ wasLeft' = [o \in Node |-> {}]
  /\ UNCHANGED <<l, drift>>

Event ==
  /\ i >= 1 /\ i <= Len(Log[l].tl)
  /\ LET ev == Log[l].tl[i] IN
     /\ CASE ev.k = "lose" -> Lose(Log[l].victim)
          [] ev.k = "kill" -> Kill(Log[l].victim) \/ (Dead(Log[l].victim) /\ UNCHANGED vars)
          [] ev.k = "exited" -> Dead(Log[l].victim) /\ UNCHANGED vars
          [] ev.k = "view" -> MatchesView(ev) /\ UNCHANGED vars
          [] ev.k = "reg" -> MatchesReg(ev) /\ UNCHANGED vars
          [] ev.k = "proxy" -> ~ProxyOpen(ev.o) /\ UNCHANGED vars   \* its proxy port refuses connections
          [] OTHER -> UNCHANGED vars
     /\ viol' = IF ev.k = "view" THEN ViewViolations(ev)
                ELSE IF ev.k = "reg" THEN RegViolations(ev)
                ELSE {}
     /\ wasLeft' = IF ev.k = "view" THEN [wasLeft EXCEPT ![ev.o] = @ \cup LeftIn(ev)] ELSE wasLeft
  /\ i' = i + 1
  /\ UNCHANGED <<l, drift>>

\* between two observations anything of Background may happen; a flip of the failure detector about a live
\* node is only tried when the next observation shows it
NextShows(o, n, st) ==
  LET ev == Log[l].tl[i] IN ev.k = "view" /\ ev.o = o /\ HasObs(ev, n) /\ ObsOf(ev, n).st = st
Silent ==
  /\ i >= 1 /\ i <= Len(Log[l].tl)
  /\ \/ BackgroundCore
     \/ \E o, n \in Node : FalseSuspect(o, n) /\ NextShows(o, n, "unreachable")
     \/ \E o, n \in Node : Unsuspect(o, n) /\ NextShows(o, n, "active")
  /\ UNCHANGED <<l, i, viol, drift, wasLeft>>

\* the time line was followed to its end: the driver's own measurements are judged
EndLoss ==
  /\ i >= 1 /\ i = Len(Log[l].tl) + 1
  /\ l' = l + 1 /\ i' = 0
  /\ viol' = LossViolations(Log[l])
  /\ SetTo(NoConn)
  /\ UNCHANGED <<drift, wasLeft>>

\* ... or it could not be followed (layer A): the rest of it is still judged on its own
GiveUp ==
  /\ i >= 1 /\ i <= Len(Log[l].tl)
  /\ LET rest == {k \in i..Len(Log[l].tl) : Log[l].tl[k].k = "view"}
         rregs == {k \in i..Len(Log[l].tl) : Log[l].tl[k].k = "reg"} IN
     viol' = LossViolations(Log[l]) \cup UNION {ViewViolations(Log[l].tl[k]) : k \in rest}
                                    \cup UNION {RegViolations(Log[l].tl[k]) : k \in rregs}
  /\ l' = l + 1 /\ i' = 0 /\ drift' = drift + 1
  /\ SetTo(NoConn)
  /\ UNCHANGED wasLeft

TraceNext == PlainLine \/ StartLoss \/ Event \/ Silent \/ EndLoss \/ GiveUp
TraceSpec == TraceInit /\ [][TraceNext]_tvars

NoStepViolation == viol = {}

\* acceptance: the smallest drift with which the end of the log is reached (register 2), and how far the log
\* was followed (register 1); -workers 1
DriftReport ==
  /\ (l > TLCGet(1) => TLCSet(1, l))
  /\ (l > Len(Log) /\ drift < TLCGet(2) => TLCSet(2, drift))
Consumed ==
  /\ PrintT(<<"TRACE-RESULT", TLCGet(1) - 1, Len(Log)>>)
  /\ PrintT(<<"TRACE-COUNTERS", TLCGet(2), 0, 0>>)
  /\ TLCGet(1) - 1 = Len(Log)
=============================================================================
