--------------------------------- MODULE Auth ---------------------------------
(***************************************************************************)
(* C09 / C10: what a protected port does with a request's credentials.     *)
(*   pkg/middleware/auth.go         parseToken / parseTenant / Verify      *)
(*   pkg/auth/jwtverifier.go        allowed methods, key by family, JWKS   *)
(*   pkg/auth/multi_tenant_verifier.go                                     *)
(*   pkg/auth/verifier.go           EndpointPermitted                      *)
(*   server/proxy/server.go, server/upstream/server.go  endpoint checks    *)
(*                                                                         *)
(* A decision table: TLC enumerates every (configuration, token, header    *)
(* form, tenant, target) as an initial state.  Accept* is written the way  *)
(* the code decides; Valid* is written the way the property is stated; the *)
(* invariants say they agree.  The harness (cmd/aeng) sends real requests  *)
(* with real signed tokens for the same cases; TraceAuth.tla judges the    *)
(* observed outcomes with the same operators.                              *)
(***************************************************************************)
EXTENDS Integers, FiniteSets, Sequences

CONSTANTS KeySets,    \* set of key configurations: subsets of {"HS","RS","ES"} or {"JWKS"}
          Auds, Isss, \* configured audience / issuer: "" (not configured) or "A" / "I"
          Algs, Signers, Tampers, Exps, Nbfs, TokAuds, TokIsss, Kids,
          XHdrs, AuthzHdrs, Schemes,
          TenantTables, TenantHdrs, SignedFor,   \* C10 tenants
          ClaimSets, HostLabels, EpHeaders,      \* C10 endpoints
          PathEps,                               \* endpoint named by the URL path ("" = HTTP route)
          NoDiscs                                \* disable_disconnect_on_expiry settings of the port (subset of BOOLEAN)

VARIABLES conf, tok, hdr, ten, tgt,
          now,   \* "before" / "after" the expiry of a token whose exp is "soon"
          seen   \* the very same token was presented to this port earlier and accepted
vars == <<conf, tok, hdr, ten, tgt, now, seen>>

Init ==
  /\ conf \in [keys : KeySets, aud : Auds, iss : Isss, noDisc : NoDiscs]
  /\ now = "before" /\ seen = FALSE
  /\ tok \in [alg : Algs, signer : Signers, tamper : Tampers, exp : Exps, nbf : Nbfs,
              aud : TokAuds, iss : TokIsss, kid : Kids, eps : ClaimSets]
  /\ hdr \in [x : XHdrs, authz : AuthzHdrs, scheme : Schemes]
  /\ ten \in [table : TenantTables, hdr : TenantHdrs, signedFor : SignedFor]
  /\ tgt \in [host : HostLabels, header : EpHeaders, path : PathEps, fwd : BOOLEAN]
  \* the key-id only matters with a JWKS; tenants only on the upstream port
  /\ ("JWKS" \notin conf.keys => tok.kid = "known")


-----------------------------------------------------------------------------
(* the way the code decides *)

JWKS(c) == "JWKS" \in c.keys

\* parseToken: x-piko-authorization first, then Authorization; "<type> <token>"
Effective(h) == IF h.x # "absent" THEN h.x ELSE h.authz
ParseOK(h) == Effective(h) # "absent" /\ h.scheme = "Bearer"
\* the token string that reaches the verifier is the token under test
CarriesToken(h) == Effective(h) = "good"

\* jwt.WithValidMethods(methods): methods are the families of the configured
\* keys; with a JWKS alone the list is empty, i.e. no restriction
MethodAllowed(c, t) == JWKS(c) \/ t.alg \in c.keys

\* the key the Keyfunc returns; "none" if it returns an error
KeyFor(c, t) ==
  \* (a token without a key id is tried against every key of the set)
  IF JWKS(c) THEN (IF t.kid # "unknown" THEN "JWKS" ELSE "none")
  ELSE IF t.alg \in {"HS", "RS", "ES"} THEN t.alg ELSE "none"

\* the signature verifies iff the token was signed, untampered, by the private
\* counterpart of exactly the key the Keyfunc returned, with that key's family
SignatureOK(c, t) ==
  /\ t.tamper = "none"
  /\ t.signer = "conf"
  /\ KeyFor(c, t) # "none"
  /\ IF JWKS(c) THEN t.alg = "RS" ELSE t.alg \in c.keys

\* time passes: the only thing that changes is the clock. disable_disconnect_on_expiry decides
\* whether an established connection is closed at the token's expiry, never whether a request is accepted
Expired(t) == t.exp = "past" \/ (t.exp = "soon" /\ now = "after")

ClaimsOK(c, t) ==
  /\ ~Expired(t)
  /\ t.nbf # "future"
  /\ (c.aud # "" => t.aud = c.aud)
  /\ (c.iss # "" => t.iss = c.iss)

VerifyOK(c, t) == MethodAllowed(c, t) /\ SignatureOK(c, t) /\ ClaimsOK(c, t)

Accept == ParseOK(hdr) /\ CarriesToken(hdr) /\ VerifyOK(conf, tok)

\* the expiry of a token that is about to expire passes; the same token is presented again
Later ==
  /\ now = "before" /\ tok.exp = "soon"
  /\ now' = "after" /\ seen' = Accept
  /\ UNCHANGED <<conf, tok, hdr, ten, tgt>>
Next == Later \/ UNCHANGED vars
Spec == Init /\ [][Next]_vars

-----------------------------------------------------------------------------
(* the way the property is stated *)

Family(alg) == alg
ConfiguredFamilies(c) == IF JWKS(c) THEN {"RS"} ELSE c.keys   \* the test JWKS holds one RSA key

Valid ==
  /\ \/ hdr.x = "good" /\ hdr.scheme = "Bearer"
     \/ hdr.x = "absent" /\ hdr.authz = "good" /\ hdr.scheme = "Bearer"
  /\ tok.signer = "conf" /\ tok.tamper = "none"
  /\ Family(tok.alg) \in ConfiguredFamilies(conf)
  /\ (JWKS(conf) => tok.kid # "unknown")
  /\ ~Expired(tok) /\ tok.nbf # "future"
  /\ (conf.aud # "" => tok.aud = conf.aud)
  /\ (conf.iss # "" => tok.iss = conf.iss)

AcceptIffValid == Accept <=> Valid
NoneNeverAccepted == tok.alg = "none" => ~Accept
UnsignedNeverAccepted == tok.signer \in {"unsigned", "confusion", "other", "empty"} => ~Accept
\* acceptance is a function of the request and the clock, not of what was accepted before
\* (Accept and Valid do not mention seen; the trace specification judges repeated presentations)
ExpiredNeverAccepted == (Expired(tok) \/ tok.nbf = "future") => ~Accept
XPikoTakesPrecedence == (hdr.x = "bad" => ~Accept) /\ (hdr.x = "good" /\ hdr.authz = "bad" /\ hdr.scheme = "Bearer" /\ VerifyOK(conf, tok) => Accept)

-----------------------------------------------------------------------------
(* C10: endpoints *)

\* the endpoint a request names: the URL path parameter on the TCP and upstream
\* routes; on the HTTP route EndpointIDFromRequest: the x-piko-endpoint header
\* first, else the first Host label
\* (tgt.fwd: the client itself sends x-piko-forward: true - the marker nodes put on forwarded requests; it
\* decides whether the request may be forwarded again, never whether the token permits the endpoint)
Routed(t) == IF t.path # "" THEN t.path ELSE IF t.header # "" THEN t.header ELSE t.host
Permitted(claims, ep) == claims = {} \/ ep \in claims

\* the proxy serves the request on endpoint Routed(tgt) iff the token is
\* accepted and permits exactly that endpoint
ProxyServes(ep) == Accept /\ Routed(tgt) = ep /\ ep # "" /\ Permitted(tok.eps, ep)
CheckedIsRouted == \A ep \in HostLabels \cup EpHeaders \cup PathEps : ProxyServes(ep) => Permitted(tok.eps, Routed(tgt))
OnlyPermitted == \A ep \in HostLabels \cup EpHeaders \cup PathEps : ProxyServes(ep) => (tok.eps = {} \/ ep \in tok.eps)

(* C10: tenants (upstream port) *)
\* MultiTenantVerifier.Verify(token, tenantID)
TenantAccept ==
  IF ten.hdr = "" THEN ten.table = {} /\ ten.signedFor = "default" /\ Accept
  ELSE ten.hdr \in ten.table /\ ten.signedFor = ten.hdr /\ Accept
TenantValid ==
  /\ Accept
  /\ IF ten.table = {} THEN ten.hdr = "" /\ ten.signedFor = "default"
     ELSE ten.hdr \in ten.table /\ ten.signedFor = ten.hdr
TenantIsolation == TenantAccept <=> TenantValid
DefaultDisabledWhenTenants == (ten.table # {} /\ ten.hdr = "") => ~TenantAccept
UnknownTenantRefused == (ten.hdr # "" /\ ten.hdr \notin ten.table) => ~TenantAccept
=============================================================================
