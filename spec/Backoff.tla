------------------------------- MODULE Backoff --------------------------------
(***************************************************************************)
(* The retry policy of the client's reconnect loop and of the join at      *)
(* start-up (pkg/backoff/backoff.go, used by client/upstream.go with       *)
(* retries = 0 and by server/gossip/gossip.go JoinOnStartup with           *)
(* retries = 5): exponential back-off with jitter.  Part of C18: an        *)
(* upstream listener that lost its node keeps trying to reconnect - it     *)
(* never gives up and never waits longer than the configured maximum       *)
(* (plus the jitter).  Durations are integers (any unit).                  *)
(*                                                                         *)
(* One action per call of Backoff().  The code's peculiarities are kept:   *)
(* the jitter (a factor in [1.0, 1.1)) is applied after the cap, so a wait *)
(* may exceed Max by up to 10 %, and the next wait doubles the jittered     *)
(* one; with Retries = r the call succeeds r + 1 times.                     *)
(***************************************************************************)
EXTENDS Integers

CONSTANTS Retries,   \* 0 = retry for ever
          Min, Max,  \* configured minimum / maximum back-off
          MaxCalls   \* bound on the number of calls (model only)

VARIABLES attempts,  \* successful calls so far
          last,      \* the wait returned by the last successful call (0 = none yet)
          out, ok,   \* result of the last call
          calls      \* ghost: number of calls

vars == <<attempts, last, out, ok, calls>>

Init == attempts = 0 /\ last = 0 /\ out = 0 /\ ok = TRUE /\ calls = 0

\* nextWait before the jitter
Base == LET b == IF last = 0 THEN Min ELSE 2 * last IN IF b > Max THEN Max ELSE b
\* float64(b) * (1.0 + rand.Float64() * 0.1), truncated
Jittered(b) == b..(b + b \div 10)

GiveUp == Retries # 0 /\ attempts > Retries

Call ==
  /\ calls < MaxCalls
  /\ calls' = calls + 1
  /\ IF GiveUp
     THEN out' = 0 /\ ok' = FALSE /\ UNCHANGED <<attempts, last>>
     ELSE \E w \in Jittered(Base) :
            attempts' = attempts + 1 /\ last' = w /\ out' = w /\ ok' = TRUE

\* a new Backoff value (every reconnect loop starts with a fresh one)
Fresh == calls > 0 /\ attempts' = 0 /\ last' = 0 /\ out' = 0 /\ ok' = TRUE /\ calls' = 0

Next == Call \/ Fresh
Spec == Init /\ [][Next]_vars

-----------------------------------------------------------------------------
Lo == IF Min > Max THEN Max ELSE Min
WithinBounds == (ok /\ calls > 0) => (out >= Lo /\ 10 * out <= 11 * Max)
NeverGivesUpWhenForever == Retries = 0 => ok
GivesUpExactlyAfter == Retries # 0 => (ok <=> calls <= Retries + 1)
\* until the cap is reached every wait is at least twice the wait before it
DoublesStep == (Call /\ ok' /\ last # 0 /\ 2 * last <= Max) => out' >= 2 * last
Doubles == [][DoublesStep]_vars
\* once a wait has reached the maximum, every later wait has too
StaysAtCapStep == (Call /\ ok' /\ last >= Max) => out' >= Max
StaysAtCap == [][StaysAtCapStep]_vars
=============================================================================
