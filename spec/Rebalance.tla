------------------------------- MODULE Rebalance ------------------------------
(***************************************************************************)
(* C19: one call of upstream.Server.Rebalance() (server/upstream/server.go)*)
(* together with cluster.State.AvgConns() (server/cluster/state.go), in    *)
(* exact integer / rational arithmetic.                                    *)
(*                                                                         *)
(* A configuration is: the local connection count, the other nodes (each   *)
(* with a status and a connection count), and threshold = TN/TD, shed rate *)
(* = RN/RD, minimum connections.  The model has no steps: TLC enumerates   *)
(* every configuration as an initial state and checks that what the code   *)
(* computes (Shed) satisfies every clause of the property.                 *)
(***************************************************************************)
EXTENDS Integers, Sequences, FiniteSets

CONSTANTS MaxLocal,     \* local connections 0..MaxLocal
          MaxOthers,    \* 0..MaxOthers other nodes
          OtherConns,   \* set of possible connection counts of another node
          Statuses,     \* subset of {"active", "unreachable", "left"}
          Thresholds,   \* set of <<TN, TD>>
          Rates,        \* set of <<RN, RD>>
          Mins          \* set of minimum connection settings

VARIABLES local, others, thr, rate, minc
vars == <<local, others, thr, rate, minc>>

SeqsUpTo(S, n) == UNION {[1..k -> S] : k \in 0..n}

Init ==
  /\ local \in 0..MaxLocal
  /\ others \in SeqsUpTo([status : Statuses, conns : OtherConns], MaxOthers)
  /\ thr \in Thresholds
  /\ rate \in Rates
  /\ minc \in Mins

Next == UNCHANGED vars
Spec == Init /\ [][Next]_vars

-----------------------------------------------------------------------------
RECURSIVE SumConns(_)
SumConns(s) == IF s = <<>> THEN 0 ELSE (IF Head(s).status = "active" THEN Head(s).conns ELSE 0) + SumConns(Tail(s))
ActiveOthers(o) == Cardinality({i \in DOMAIN o : o[i].status = "active"})

\* AvgConns(): whole connections per active node, the local node included
Avg(l, o) == (l + SumConns(o)) \div (1 + ActiveOthers(o))

CeilDiv(a, b) == (a + b - 1) \div b
Min2(a, b) == IF a < b THEN a ELSE b
Max2(a, b) == IF a > b THEN a ELSE b

Enabled(t) == t[1] > 0
\* balance >= threshold, with balance = (local - avg) / avg  (+infinity when avg = 0)
OverThreshold(l, a, t) == IF a = 0 THEN l > 0 ELSE (l - a) * t[2] >= t[1] * a

\* what Rebalance() closes (sessions closed = min(max(n, 1), open))
ShedOf(l, o, t, r, m) ==
  LET a == Avg(l, o) IN
  IF ~Enabled(t) THEN 0
  ELSE IF Len(o) = 0 THEN 0
  ELSE IF l = 0 \/ l < m THEN 0
  ELSE IF ~OverThreshold(l, a, t) THEN 0
  ELSE LET capped == IF a = 0 THEN TRUE ELSE l * (l - a) * r[2] > a * r[1] * a
           n == IF capped THEN CeilDiv(a * r[1], r[2]) ELSE (l * (l - a)) \div a
       IN Min2(Max2(n, 1), l)

Shed == ShedOf(local, others, thr, rate, minc)
A == Avg(local, others)

\* the clauses of the property, on a shed count s
ShedOnlyIfAllGuardsOf(s) ==
  s > 0 => /\ Enabled(thr)
           /\ Len(others) >= 1
           /\ local >= 1 /\ local >= minc
           /\ OverThreshold(local, A, thr)
AtMostRateOf(s) == s <= Max2(1, CeilDiv(A * rate[1], rate[2]))
NeverMoreThanOpenOf(s) == s <= local
AtOrBelowAverageShedsNothingOf(s) == local <= A => s = 0

ShedOnlyIfAllGuards == ShedOnlyIfAllGuardsOf(Shed)
AtMostCeilRateAvgAndAtLeastOne == AtMostRateOf(Shed)
NeverMoreThanOpen == NeverMoreThanOpenOf(Shed)
AtOrBelowAverageShedsNothing == AtOrBelowAverageShedsNothingOf(Shed)
\* and it does shed when all guards hold (not demanded by the property; kept as a sanity check of the model)
ShedsWhenImbalanced ==
  (Enabled(thr) /\ Len(others) >= 1 /\ local >= 1 /\ local >= minc /\ OverThreshold(local, A, thr)) => Shed >= 1
=============================================================================
