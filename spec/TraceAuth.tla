------------------------------ MODULE TraceAuth ------------------------------
(***************************************************************************)
(* Validation of real requests to the protected ports of real piko nodes   *)
(* (harness cmd/aeng) against Auth.tla.  Every line is one request: the    *)
(* case (configuration, token, header form, tenant, target) and what came  *)
(* back (status, which endpoint's upstream served it, how many requests    *)
(* reached any upstream, which endpoint got registered).                   *)
(***************************************************************************)
EXTENDS Auth, Json, TLC

Log == ndJsonDeserialize("trace.ndjson")

VARIABLES l, drift, viol
tvars == <<vars, l, drift, viol>>

SetOf(arr) == {arr[i] : i \in DOMAIN arr}

TraceInit ==
  /\ l = 1 /\ drift = 0 /\ viol = {}
  /\ conf = [keys |-> {}, aud |-> "", iss |-> "", noDisc |-> FALSE]
  /\ now = "before" /\ seen = FALSE
  /\ tok = [alg |-> "", signer |-> "", tamper |-> "", exp |-> "", nbf |-> "", aud |-> "", iss |-> "", kid |-> "",
            eps |-> {}]
  /\ hdr = [x |-> "", authz |-> "", scheme |-> ""]
  /\ ten = [table |-> {}, hdr |-> "", signedFor |-> ""]
  /\ tgt = [host |-> "", header |-> "", path |-> "", fwd |-> FALSE]

\* the handler (or any handler behind the authentication middleware) ran
Ran(e) == e.status # 401

Violations(e) ==
  IF e.op = "Auth" THEN
    (IF Ran(e) /\ ~Valid' THEN {"OnlyAcceptedRun"} ELSE {})
    \cup (IF ~Valid' /\ (e.hits # 0 \/ e.served # "") THEN {"RejectedReachesNoUpstream"} ELSE {})
    \cup (IF e.status < 0 THEN {"TransportError"} ELSE {})
  ELSE IF e.op = "Endpoint" THEN
    LET r == Routed(tgt') IN
    (IF e.served # "" /\ (e.served # r \/ ~Permitted(tok'.eps, e.served)) THEN {"OnlyPermitted"} ELSE {})
    \cup (IF r # "" /\ ~Permitted(tok'.eps, r) /\ (e.status # 401 \/ e.hits # 0) THEN {"CheckedIsRouted"} ELSE {})
    \cup (IF e.served = "" /\ e.hits # 0 THEN {"UnstampedDelivery"} ELSE {})
  ELSE IF e.op = "Listen" THEN
    LET r == Routed(tgt') IN
    (IF e.status = 101 /\ (~Permitted(tok'.eps, r) \/ e.reg # r) THEN {"ListenOnlyPermitted"} ELSE {})
    \cup (IF ~Permitted(tok'.eps, r) /\ (e.status # 401 \/ e.reg # "") THEN {"ListenOnlyPermitted"} ELSE {})
  ELSE IF e.op = "TenantAuth" THEN
    \* a plain request to a route of the upstream port that has a tenant table
    (IF Ran(e) /\ ~TenantValid' THEN {"OnlyAcceptedRun"} ELSE {})
    \cup (IF e.status < 0 THEN {"TransportError"} ELSE {})
  ELSE IF e.op = "Tenant" THEN
    (IF (e.status = 101) # TenantValid' THEN {"TenantIsolation"} ELSE {})
    \cup (IF e.status \notin {101, 401} THEN {"TransportError"} ELSE {})
  ELSE {}

\* layer A: the outcome the decision table predicts
Predicted(e) ==
  IF e.op = "Auth" THEN Ran(e) = Accept'
  ELSE IF e.op = "Endpoint" THEN
    LET r == Routed(tgt') IN
    IF r = "" THEN e.status = 400
    ELSE IF ~Permitted(tok'.eps, r) THEN e.status = 401
    ELSE e.status # 401
  ELSE IF e.op = "Listen" THEN (e.status = 101) = Permitted(tok'.eps, Routed(tgt'))
  ELSE IF e.op = "TenantAuth" THEN Ran(e) = TenantAccept'
  ELSE TRUE

TraceNext ==
  /\ l <= Len(Log)
  /\ l' = l + 1
  /\ LET e == Log[l] IN
     /\ conf' = [keys |-> SetOf(e.conf.keys), aud |-> e.conf.aud, iss |-> e.conf.iss, noDisc |-> e.conf.noDisc]
     /\ now' = IF e.when = "after" THEN "after" ELSE "before"
     /\ seen' = e.seen
     /\ tok' = [alg |-> e.tok.alg, signer |-> e.tok.signer, tamper |-> e.tok.tamper, exp |-> e.tok.exp,
                nbf |-> e.tok.nbf, aud |-> e.tok.aud, iss |-> e.tok.iss, kid |-> e.tok.kid,
                eps |-> SetOf(e.tok.eps)]
     /\ hdr' = [x |-> e.hdr.x, authz |-> e.hdr.authz, scheme |-> e.hdr.scheme]
     /\ ten' = [table |-> SetOf(e.ten.table), hdr |-> e.ten.hdr, signedFor |-> e.ten.signedFor]
     /\ tgt' = [host |-> e.tgt.host, header |-> e.tgt.header, path |-> e.tgt.path, fwd |-> e.tgt.fwd]
     /\ viol' = IF e.op = "Reset" THEN {} ELSE Violations(e)
     /\ drift' = drift + (IF e.op = "Reset" \/ Predicted(e) THEN 0 ELSE 1)

TraceSpec == TraceInit /\ [][TraceNext]_tvars

NoStepViolation == viol = {}
Consumed ==
  /\ PrintT(<<"TRACE-RESULT", TLCGet("stats").diameter - 1, Len(Log)>>)
  /\ TLCGet("stats").diameter - 1 = Len(Log)
DriftReport == l <= Len(Log) \/ PrintT(<<"TRACE-COUNTERS", drift, 0, 0>>)
=============================================================================
