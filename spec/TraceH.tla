------------------------------- MODULE TraceH --------------------------------
(***************************************************************************)
(* Validation of real HTTP exchanges through real piko nodes (harness      *)
(* cmd/peng, mode c08) against HttpMap.tla.                                *)
(*  - "transparent" lines: a randomly shaped request was sent through the  *)
(*    local or the forwarded path to an upstream that echoes what it saw   *)
(*    and produces the requested response; 'fields' lists every request /  *)
(*    response field that arrived different from what was sent / produced. *)
(*  - failure lines: the upstream is absent / went away / closes early /   *)
(*    closes mid-body / is slower than the timeout; status, duration and   *)
(*    whether a complete body arrived are logged.                          *)
(***************************************************************************)
EXTENDS HttpMap, Sequences, FiniteSets, Json, TLC

Log == ndJsonDeserialize("trace.ndjson")

VARIABLES l, viol
tvars == <<vars, l, viol>>

TraceInit == l = 1 /\ viol = {} /\ known = TRUE /\ route = "local" /\ ups = "ok" /\ upgrade = "none" /\ client = "stays"

UpgOf(c) == IF c = "slow-upgrade" THEN "websocket" ELSE IF c = "slow-other-upgrade" THEN "other" ELSE "none"

UpsOf(c) == IF c \in {"absent", "goaway", "close-early", "close-mid", "slow"} THEN c
            ELSE IF c = "close-mid-chunked" THEN "close-mid"
            ELSE IF c \in {"slow-upgrade", "slow-other-upgrade"} THEN "slow" ELSE "ok"

Violations(e) ==
  LET want == Answer(e.case # "no-endpoint", UpsOf(e.case), UpgOf(e.case)) IN
  IF e.case = "half-close"
  THEN \* the upstream's own answer, or the request was abandoned and piko says so: nothing else
       (IF ~(\/ ("upstream" \in Answers(TRUE, "ok", "none", "half-close") /\ e.status = e.wantSt)
             \/ ("502" \in Answers(TRUE, "ok", "none", "half-close") /\ e.status = 502))
        THEN {"StatusMapping"} ELSE {})
       \cup (IF e.tookMs > e.limitMs THEN {"NoHang"} ELSE {})
  ELSE IF e.case = "transparent"
  THEN (IF e.fields # <<>> THEN {"Transparent"} ELSE {})
       \cup (IF e.status # e.wantSt THEN {"StatusPassedThrough"} ELSE {})
       \cup (IF e.servedE # e.target THEN {"ServedByTheEndpoint"} ELSE {})
  ELSE (IF want \in {"400", "502", "504"} /\
           e.status # (IF want = "400" THEN 400 ELSE IF want = "502" THEN 502 ELSE 504)
        THEN {"StatusMapping"} ELSE {})
       \cup (IF e.tookMs > e.limitMs THEN {"NoHang"} ELSE {})
       \cup (IF want = "broken" /\ \E i \in DOMAIN e.fields : e.fields[i] = "complete-body"
             THEN {"NoFabricatedSuccess"} ELSE {})
       \cup (IF want = "upstream" /\ e.status # 200 THEN {"UpgradeHasNoTimeout"} ELSE {})
       \cup (IF want \in {"400", "502", "504"} /\ e.servedE # "" THEN {"NoFabricatedSuccess"} ELSE {})

TraceNext ==
  /\ l <= Len(Log)
  /\ l' = l + 1
  /\ LET e == Log[l] IN
     /\ known' = (e.op # "Http" \/ e.case # "no-endpoint")
     /\ route' = IF e.op = "Http" THEN e.route ELSE "local"
     /\ ups' = IF e.op = "Http" THEN UpsOf(e.case) ELSE "ok"
     /\ upgrade' = IF e.op = "Http" THEN UpgOf(e.case) ELSE "none"
     /\ client' = IF e.op = "Http" /\ e.case = "half-close" THEN "half-close" ELSE "stays"
     /\ viol' = IF e.op = "Http" THEN Violations(e) ELSE {}
TraceSpec == TraceInit /\ [][TraceNext]_tvars

NoStepViolation == viol = {}
Consumed ==
  /\ PrintT(<<"TRACE-RESULT", TLCGet("stats").diameter - 1, Len(Log)>>)
  /\ TLCGet("stats").diameter - 1 = Len(Log)
DriftReport == l <= Len(Log) \/ PrintT(<<"TRACE-COUNTERS", 0, 0, 0>>)
=============================================================================
