------------------------------- MODULE Gossip -------------------------------
(***************************************************************************)
(* piko's gossip layer (pkg/gossip), written the way the code is written:  *)
(* one action per critical section of clusterState / packetListener /      *)
(* streamListener / Gossip.  Anchors:                                      *)
(*   state.go     UpsertLocal DeleteLocal LeaveLocal CompactLocal Digest   *)
(*                Delta ApplyDigest ApplyDelta/applyDeltaEntry              *)
(*                UpdateLiveness RemoveExpiredAt                            *)
(*   listener.go  packetListener.digest / .delta, streamListener.join /    *)
(*                .leave                                                    *)
(*   gossip.go    gossip() (digest request), join(), leave()               *)
(*   protocol.go  encodeDelta truncation (longest whole-element prefix)    *)
(*                                                                         *)
(* Every nondeterministic choice is an action parameter so that an action  *)
(* label determines the step.                                              *)
(***************************************************************************)
EXTENDS Integers, Sequences, FiniteSets, TLC

CONSTANTS
  Node,       \* node ids
  Key,        \* user keys
  Val,        \* user values (contains "" to exercise the tombstone value)
  MaxVer,     \* bound on a node's own version (model only)
  MaxSlots,   \* datagrams in flight (model only)
  Writers,    \* nodes that perform local writes
  Crashers,   \* nodes that may crash
  Features,   \* subset of {"leave","compact","liveness","expire","dup","join","shuffle","lose"}
  Budgets,    \* element budgets of a delta datagram (header = 1 element, entry = 1 element)
  InitKnown,  \* TRUE: every node starts knowing every other node at version 0
  MaskF2,     \* TRUE: disable the known-finding F2 transitions
  MaskF4,     \* TRUE: disable the known-finding F4 transitions
  ObsInit(_), \* observer state built from the initial st (GossipObs.tla; NoObsInit when unused)
  ObsUpdate(_, _) \* observer state after the notifications of one step (a pure function)

LEFTK == "_internal:left"
COMPK == "_internal:compact"

VARIABLES
  st,        \* st[o] : function known-node -> view [ver, ents, left, unreach]
  armq,      \* armq[o] : sequence of node ids whose expiry is armed, in deadline order
  alive,     \* alive[n]
  susp,      \* susp[o] : nodes o's failure detector currently suspects (environment)
  net,       \* slot -> datagram
  evts,      \* notifications the last action emitted to watchers: sequence of [o, t, n, k, v]
  written,   \* ghost: every entry node n ever had in its own state
  expiredBy, \* ghost: expiredBy[o] = nodes o removed by expiry
  f4taint,   \* ghost: pairs <<o,n>> whose view was damaged by known finding F4
  relearned, \* ghost: pairs <<o,n>> : o re-created a view of n after expiring it although n is gone (F2)
  obs        \* what the watchers have built from the notifications so far (fold / routing table)

vars == <<st, armq, alive, susp, net, evts, written, expiredBy, f4taint, relearned, obs>>

NoObsInit(s) == 0
NoObsUpdate(o, ev) == o

-----------------------------------------------------------------------------
(* Values *)

Ent(k, v, ver, del, int, cv) ==
  [k |-> k, v |-> v, ver |-> ver, del |-> del, int |-> int, cv |-> cv]

EmptyView == [ver |-> 0, ents |-> {}, left |-> FALSE, unreach |-> FALSE]

Ev(t, n, k, v) == [t |-> t, n |-> n, k |-> k, v |-> v]

Known(o) == DOMAIN st[o]
Own(n) == st[n][n]
Gone(n) == ~alive[n] \/ Own(n).left

Range(s) == {s[i] : i \in DOMAIN s}
RemoveFrom(s, x) == SelectSeq(s, LAMBDA y : y # x)

\* entries of a set as a sequence in version order (versions are unique per node)
RECURSIVE SortByVer(_)
SortByVer(E) ==
  IF E = {} THEN <<>>
  ELSE LET e == CHOOSE x \in E : \A y \in E : x.ver <= y.ver
       IN <<e>> \o SortByVer(E \ {e})

MaxOf(S) == CHOOSE x \in S : \A y \in S : y <= x

-----------------------------------------------------------------------------
(* Local operations on an own state s (state.go:230-374) *)

UpsertOp(s, k, v) ==
  LET prev == {e \in s.ents : e.k = k}
      new == Ent(k, v, s.ver + 1, FALSE, FALSE, 0)
  IN IF \E e \in prev : e.v = v /\ ~e.del THEN s
     ELSE [s EXCEPT !.ver = @ + 1, !.ents = (@ \ prev) \cup {new}]

DeleteOp(s, k) ==
  LET prev == {e \in s.ents : e.k = k}
  IN IF prev = {} \/ \E e \in prev : e.del THEN s
     ELSE LET p == CHOOSE e \in prev : TRUE
              new == Ent(k, "", s.ver + 1, TRUE, p.int, 0)
          IN [s EXCEPT !.ver = @ + 1, !.ents = (@ \ prev) \cup {new}]

LeaveOp(s) ==
  IF s.left THEN s
  ELSE LET new == Ent(LEFTK, "", s.ver + 1, FALSE, TRUE, 0)
       IN [s EXCEPT !.ver = @ + 1, !.left = TRUE,
                    !.ents = {e \in @ : e.k # LEFTK} \cup {new}]

Tombstones(s) == {e \in s.ents : e.del}

\* CompactLocal(thr): re-version the live entries in their old version order,
\* then add the compaction marker whose value is the last discarded version.
CompactOp(s, thr) ==
  IF Cardinality(Tombstones(s)) < thr \/ s.ents = {} THEN s
  ELSE LET cv == MaxOf({e.ver : e \in s.ents})
           live == {e \in s.ents : ~e.del /\ ~(e.int /\ e.k = COMPK)}
           rank(e) == Cardinality({f \in live : f.ver <= e.ver})
           re == {[e EXCEPT !.ver = s.ver + rank(e)] : e \in live}
           m == Cardinality(live)
           marker == Ent(COMPK, "", s.ver + m + 1, FALSE, TRUE, cv)
       IN [s EXCEPT !.ver = s.ver + m + 1, !.ents = re \cup {marker}]

-----------------------------------------------------------------------------
(* Digest and delta (state.go:376-505) *)

DigestSet(o) == {[id |-> n, ver |-> st[o][n].ver, left |-> st[o][n].left] : n \in Known(o)}

\* all orderings of all sub-multisets are what a shuffled, truncated digest
\* datagram can carry; IsDigestSeq says dseq is one of them.
IsDigestSeq(o, dseq) ==
  /\ \A i \in DOMAIN dseq : dseq[i] \in DigestSet(o)
  /\ \A i, j \in DOMAIN dseq : i # j => dseq[i].id # dseq[j].id

NodeDelta(views, n, from) ==
  [id |-> n, ents |-> SortByVer({e \in views[n].ents : e.ver > from})]

\* Delta(digest, fullDigest = FALSE)
RECURSIVE DeltaSeq(_, _)
DeltaSeq(views, dseq) ==
  IF dseq = <<>> THEN <<>>
  ELSE LET e == Head(dseq)
           rest == DeltaSeq(views, Tail(dseq))
       IN IF e.id \notin DOMAIN views THEN rest
          ELSE LET nd == NodeDelta(views, e.id, e.ver)
               IN IF nd.ents = <<>> THEN rest ELSE <<nd>> \o rest

\* the nodes a full digest does not mention are appended, even when empty, in
\* map order; fseq is that order
FullDeltaSeq(views, dseq, fseq) ==
  DeltaSeq(views, dseq) \o [i \in DOMAIN fseq |-> NodeDelta(views, fseq[i], 0)]

RECURSIVE FlatLen(_)
FlatLen(d) == IF d = <<>> THEN 0 ELSE 1 + Len(Head(d).ents) + FlatLen(Tail(d))

\* encodeDelta: the longest prefix of <header, entry, entry, header, ...> of c elements
RECURSIVE Trunc(_, _)
Trunc(d, c) ==
  IF d = <<>> \/ c <= 0 THEN <<>>
  ELSE LET h == Head(d)
           take == IF c - 1 >= Len(h.ents) THEN Len(h.ents) ELSE c - 1
       IN <<[id |-> h.id, ents |-> SubSeq(h.ents, 1, take)]>> \o
          (IF take < Len(h.ents) THEN <<>> ELSE Trunc(Tail(d), c - 1 - take))

Min(a, b) == IF a < b THEN a ELSE b

-----------------------------------------------------------------------------
(* Applying received state (state.go:444-573).  acc = [vs, q, ev]          *)

RECURSIVE DelEvents(_, _)
DelEvents(id, E) ==
  IF E = {} THEN <<>>
  ELSE LET e == CHOOSE x \in E : \A y \in E : x.ver <= y.ver
       IN <<Ev("del", id, e.k, "")>> \o DelEvents(id, E \ {e})

ApplyEntry(acc, id, e) ==
  LET s == acc.vs[id] IN
  IF e.ver <= s.ver THEN acc
  ELSE
    LET ents1 == {f \in s.ents : f.k # e.k} \cup {e}
        s1 == [s EXCEPT !.ents = ents1, !.ver = e.ver]
    IN IF e.int /\ e.k = LEFTK THEN
         [vs |-> [acc.vs EXCEPT ![id] = [s1 EXCEPT !.left = TRUE]],
          q  |-> Append(RemoveFrom(acc.q, id), id),
          ev |-> Append(acc.ev, Ev("leave", id, "", ""))]
       ELSE IF e.int /\ e.k = COMPK THEN
         LET dropped == {f \in ents1 : f.ver <= e.cv}
         IN [vs |-> [acc.vs EXCEPT ![id] = [s1 EXCEPT !.ents = ents1 \ dropped]],
             q  |-> acc.q,
             ev |-> acc.ev \o DelEvents(id, {f \in dropped : ~f.del})]
       ELSE IF e.int THEN
         [acc EXCEPT !.vs = [acc.vs EXCEPT ![id] = s1]]
       ELSE
         [vs |-> [acc.vs EXCEPT ![id] = s1],
          q  |-> acc.q,
          ev |-> Append(acc.ev, IF e.del THEN Ev("del", id, e.k, "")
                                         ELSE Ev("up", id, e.k, e.v))]

RECURSIVE ApplyEntries(_, _, _)
ApplyEntries(acc, id, es) ==
  IF es = <<>> THEN acc
  ELSE ApplyEntries(ApplyEntry(acc, id, Head(es)), id, Tail(es))

ApplyNode(acc, o, de) ==
  IF de.id = o THEN acc
  ELSE LET acc1 == IF de.id \in DOMAIN acc.vs THEN acc
                   ELSE [vs |-> [n \in DOMAIN acc.vs \cup {de.id} |->
                                    IF n = de.id THEN EmptyView ELSE acc.vs[n]],
                         q  |-> acc.q,
                         ev |-> Append(acc.ev, Ev("join", de.id, "", ""))]
       IN ApplyEntries(acc1, de.id, de.ents)

RECURSIVE ApplyDeltaSeq(_, _, _)
ApplyDeltaSeq(acc, o, d) ==
  IF d = <<>> THEN acc
  ELSE ApplyDeltaSeq(ApplyNode(acc, o, Head(d)), o, Tail(d))

\* ApplyDigest: discover unknown, non-left nodes at version 0
RECURSIVE ApplyDigestSeq(_, _)
ApplyDigestSeq(acc, dseq) ==
  IF dseq = <<>> THEN acc
  ELSE LET e == Head(dseq)
           acc1 == IF e.id \in DOMAIN acc.vs \/ e.left THEN acc
                   ELSE [vs |-> [n \in DOMAIN acc.vs \cup {e.id} |->
                                    IF n = e.id THEN EmptyView ELSE acc.vs[n]],
                         q  |-> acc.q,
                         ev |-> Append(acc.ev, Ev("join", e.id, "", ""))]
       IN ApplyDigestSeq(acc1, Tail(dseq))

Acc(o) == [vs |-> st[o], q |-> armq[o], ev |-> <<>>]

\* tag the notifications of node o's watcher with o
TagEv(o, seq) ==
  [i \in DOMAIN seq |-> [o |-> o, t |-> seq[i].t, n |-> seq[i].n, k |-> seq[i].k, v |-> seq[i].v]]

-----------------------------------------------------------------------------
(* Known findings as signatures of a step *)

\* F4: a delta is applied although the digest it answers claimed a version the
\* receiver no longer has (the view was removed, or removed and re-created).
F4Sig(o, m) ==
  {e.id : e \in {x \in Range(m.ans) : x.id # o /\ x.id \in {de.id : de \in Range(m.d)}
                     /\ x.ver > (IF x.id \in Known(o) THEN st[o][x.id].ver ELSE 0)}}

\* F2: a node that o expired, and that is gone (crashed or left), is created again
F2Sig(o, newNodes) == {n \in newNodes : n \in expiredBy[o] /\ Gone(n)}

-----------------------------------------------------------------------------
Init ==
  /\ st = [o \in Node |-> [n \in (IF InitKnown THEN Node ELSE {o}) |-> EmptyView]]
  /\ armq = [o \in Node |-> <<>>]
  /\ alive = [n \in Node |-> TRUE]
  /\ susp = [o \in Node |-> {}]
  /\ net = <<>>
  /\ evts = <<>>
  /\ written = [n \in Node |-> {}]
  /\ expiredBy = [o \in Node |-> {}]
  /\ f4taint = {}
  /\ relearned = {}
  /\ obs = ObsInit(st)

\* ---- local writes -------------------------------------------------------
SetOwn(n, s) ==
  /\ st' = [st EXCEPT ![n][n] = s]
  /\ written' = [written EXCEPT ![n] = @ \cup s.ents]
  /\ UNCHANGED <<armq, alive, susp, net, expiredBy, f4taint, relearned>>

UpsertLocalCore(n, k, v) ==
  /\ alive[n] /\ Own(n).ver < MaxVer
  /\ SetOwn(n, UpsertOp(Own(n), k, v))

DeleteLocalCore(n, k) ==
  /\ alive[n] /\ Own(n).ver < MaxVer
  /\ SetOwn(n, DeleteOp(Own(n), k))

LeaveLocalCore(n) ==
  /\ alive[n] /\ Own(n).ver < MaxVer
  /\ SetOwn(n, LeaveOp(Own(n)))

CompactLocalCore(n, thr) ==
  /\ alive[n]
  /\ CompactOp(Own(n), thr).ver <= MaxVer
  /\ SetOwn(n, CompactOp(Own(n), thr))

UpsertLocal(n, k, v) == UpsertLocalCore(n, k, v) /\ evts' = <<>> /\ obs' = ObsUpdate(obs, <<>>)
DeleteLocal(n, k) == DeleteLocalCore(n, k) /\ evts' = <<>> /\ obs' = ObsUpdate(obs, <<>>)
LeaveLocal(n) == LeaveLocalCore(n) /\ evts' = <<>> /\ obs' = ObsUpdate(obs, <<>>)
CompactLocal(n, thr) == CompactLocalCore(n, thr) /\ evts' = <<>> /\ obs' = ObsUpdate(obs, <<>>)

\* ---- datagrams ------------------------------------------------------------
FreeSlots == (1..MaxSlots) \ DOMAIN net
LowestFree(S) == CHOOSE x \in S : \A y \in S : x <= y

\* put the datagrams of sequence ms into the lowest free slots, in order; a
\* datagram for which no slot is free is lost at once (the network is lossy
\* anyway, and the bound on datagrams in flight is a model artefact)
RECURSIVE Put(_, _)
Put(nt, ms) ==
  IF ms = <<>> THEN nt
  ELSE LET free == (1..MaxSlots) \ DOMAIN nt
       IN IF free = {} THEN nt
          ELSE LET s == LowestFree(free)
               IN Put([x \in DOMAIN nt \cup {s} |-> IF x = s THEN Head(ms) ELSE nt[x]], Tail(ms))

Without(nt, slot) == [x \in DOMAIN nt \ {slot} |-> nt[x]]

DigMsg(from, to, req, dseq) ==
  [t |-> "dig", from |-> from, to |-> to, req |-> req, dig |-> dseq, d |-> <<>>, ans |-> <<>>]
DeltaMsg(from, to, d, ans) ==
  [t |-> "delta", from |-> from, to |-> to, req |-> FALSE, dig |-> <<>>, d |-> d, ans |-> ans]

\* gossip(): a picks b among its live or unreachable peers and sends a digest request
CanGossipTo(a, b) ==
  /\ b \in Known(a) /\ b # a
  /\ (st[a][b].unreach \/ ~st[a][b].left)

StartRoundCore(a, b, dseq) ==
  /\ alive[a] /\ CanGossipTo(a, b)
  /\ IsDigestSeq(a, dseq)
  /\ net' = Put(net, <<DigMsg(a, b, TRUE, dseq)>>)
  /\ UNCHANGED <<st, armq, alive, susp, written, expiredBy, f4taint, relearned>>

StartRound(a, b, dseq) == StartRoundCore(a, b, dseq) /\ evts' = <<>> /\ obs' = ObsUpdate(obs, <<>>)

\* packetListener.digest: ApplyDigest, answer with a (truncated) delta and, for a
\* request, with our own digest.  An empty delta is still sent by the code (it is
\* the failure detector's heartbeat); it carries no state, so sendEmpty = FALSE
\* leaves it out of the network.
RecvDigestCore(slot, keep, cut, rseq, sendEmpty) ==
  /\ slot \in DOMAIN net /\ net[slot].t = "dig"
  /\ LET m == net[slot]
         b == m.to
         acc == ApplyDigestSeq(Acc(b), m.dig)
         newN == DOMAIN acc.vs \ Known(b)
         full == DeltaSeq(acc.vs, m.dig)
         d == Trunc(full, cut)
         out1 == IF d = <<>> /\ ~sendEmpty THEN <<>> ELSE <<DeltaMsg(b, m.from, d, m.dig)>>
         out2 == IF m.req THEN <<DigMsg(b, m.from, FALSE, rseq)>> ELSE <<>>
         base == IF keep THEN net ELSE Without(net, slot)
     IN /\ alive[b]
        /\ cut \in 0..FlatLen(full)
        /\ (MaskF2 => F2Sig(b, newN) = {})
        /\ st' = [st EXCEPT ![b] = acc.vs]
        /\ (m.req => /\ \A i \in DOMAIN rseq : rseq[i] \in
                          {[id |-> n, ver |-> acc.vs[n].ver, left |-> acc.vs[n].left] : n \in DOMAIN acc.vs}
                     /\ \A i, j \in DOMAIN rseq : i # j => rseq[i].id # rseq[j].id)
        /\ (~m.req => rseq = <<>>)
        /\ net' = Put(base, out1 \o out2)
        /\ relearned' = relearned \cup {<<b, n>> : n \in F2Sig(b, newN)}
        /\ UNCHANGED <<armq, alive, susp, written, expiredBy, f4taint>>

RecvDigestEv(slot) ==
  TagEv(net[slot].to, ApplyDigestSeq(Acc(net[slot].to), net[slot].dig).ev)

RecvDigest(slot, keep, cut, rseq, sendEmpty) ==
  RecvDigestCore(slot, keep, cut, rseq, sendEmpty) /\ evts' = RecvDigestEv(slot) /\ obs' = ObsUpdate(obs, RecvDigestEv(slot))

\* packetListener.delta: report the sender to the failure detector, ApplyDelta
RecvDeltaCore(slot, keep) ==
  /\ slot \in DOMAIN net /\ net[slot].t = "delta"
  /\ LET m == net[slot]
         o == m.to
         acc == ApplyDeltaSeq(Acc(o), o, m.d)
         newN == DOMAIN acc.vs \ Known(o)
         f4 == F4Sig(o, m)
     IN /\ alive[o]
        /\ (MaskF2 => F2Sig(o, newN) = {})
        /\ (MaskF4 => f4 = {})
        /\ st' = [st EXCEPT ![o] = acc.vs]
        /\ armq' = [armq EXCEPT ![o] = acc.q]
        /\ f4taint' = f4taint \cup {<<o, n>> : n \in f4}
        /\ relearned' = relearned \cup {<<o, n>> : n \in F2Sig(o, newN)}
        /\ net' = IF keep THEN net ELSE Without(net, slot)
  /\ UNCHANGED <<alive, susp, written, expiredBy>>

RecvDeltaEv(slot) ==
  TagEv(net[slot].to, ApplyDeltaSeq(Acc(net[slot].to), net[slot].to, net[slot].d).ev)

RecvDelta(slot, keep) == RecvDeltaCore(slot, keep) /\ evts' = RecvDeltaEv(slot) /\ obs' = ObsUpdate(obs, RecvDeltaEv(slot))

LoseCore(slot) ==
  /\ slot \in DOMAIN net
  /\ net' = Without(net, slot)
  /\ UNCHANGED <<st, armq, alive, susp, written, expiredBy, f4taint, relearned>>

Lose(slot) == LoseCore(slot) /\ evts' = <<>> /\ obs' = ObsUpdate(obs, <<>>)

\* ---- streams (join / leave) ---------------------------------------------
\* Gossip.join(addr) + streamListener.join: atomic from the schedule's point of view.
\* fseq: the order in which b appends the nodes a's digest does not mention.
JoinStreamCore(a, b, dseq, fseq) ==
  /\ alive[a] /\ alive[b] /\ a # b
  /\ LET own == <<NodeDelta(st[a], a, 0)>>
         accB1 == ApplyDeltaSeq(Acc(b), b, own)
         accB2 == ApplyDigestSeq(accB1, dseq)
         resp == FullDeltaSeq(accB2.vs, dseq, fseq)
         accA == ApplyDeltaSeq(Acc(a), a, resp)
         newA == DOMAIN accA.vs \ Known(a)
         newB == DOMAIN accB2.vs \ Known(b)
     IN /\ Len(dseq) = Cardinality(Known(a)) /\ IsDigestSeq(a, dseq)
        /\ Range(fseq) = DOMAIN accB2.vs \ {e.id : e \in Range(dseq)}
        /\ Len(fseq) = Cardinality(Range(fseq))
        /\ (MaskF2 => F2Sig(a, newA) = {} /\ F2Sig(b, newB) = {})
        /\ st' = [st EXCEPT ![a] = accA.vs, ![b] = accB2.vs]
        /\ armq' = [armq EXCEPT ![a] = accA.q, ![b] = accB2.q]
        /\ relearned' = relearned \cup {<<a, n>> : n \in F2Sig(a, newA)}
                                  \cup {<<b, n>> : n \in F2Sig(b, newB)}
  /\ UNCHANGED <<alive, susp, net, written, expiredBy, f4taint>>

JoinStreamEv(a, b, dseq, fseq) ==
  LET own == <<NodeDelta(st[a], a, 0)>>
      accB2 == ApplyDigestSeq(ApplyDeltaSeq(Acc(b), b, own), dseq)
      resp == FullDeltaSeq(accB2.vs, dseq, fseq)
      accA == ApplyDeltaSeq(Acc(a), a, resp)
  IN TagEv(b, accB2.ev) \o TagEv(a, accA.ev)

JoinStream(a, b, dseq, fseq) ==
  JoinStreamCore(a, b, dseq, fseq) /\ evts' = JoinStreamEv(a, b, dseq, fseq) /\ obs' = ObsUpdate(obs, JoinStreamEv(a, b, dseq, fseq))

\* Gossip.leave(addr) + streamListener.leave: a pushes its own full state to b
LeaveStreamCore(a, b) ==
  /\ alive[a] /\ alive[b] /\ a # b
  /\ LET acc == ApplyDeltaSeq(Acc(b), b, <<NodeDelta(st[a], a, 0)>>)
         newB == DOMAIN acc.vs \ Known(b)
     IN /\ (MaskF2 => F2Sig(b, newB) = {})
        /\ st' = [st EXCEPT ![b] = acc.vs]
        /\ armq' = [armq EXCEPT ![b] = acc.q]
        /\ relearned' = relearned \cup {<<b, n>> : n \in F2Sig(b, newB)}
  /\ UNCHANGED <<alive, susp, net, written, expiredBy, f4taint>>

LeaveStreamEv(a, b) == TagEv(b, ApplyDeltaSeq(Acc(b), b, <<NodeDelta(st[a], a, 0)>>).ev)

LeaveStream(a, b) == LeaveStreamCore(a, b) /\ evts' = LeaveStreamEv(a, b) /\ obs' = ObsUpdate(obs, LeaveStreamEv(a, b))

\* ---- liveness and expiry ------------------------------------------------
\* the failure detector's verdict changes (environment)
SetSuspectCore(o, n, b) ==
  /\ alive[o] /\ n # o
  /\ (b <=> n \notin susp[o])
  /\ susp' = [susp EXCEPT ![o] = IF b THEN @ \cup {n} ELSE @ \ {n}]
  /\ UNCHANGED <<st, armq, alive, net, written, expiredBy, f4taint, relearned>>

SetSuspect(o, n, b) == SetSuspectCore(o, n, b) /\ evts' = <<>> /\ obs' = ObsUpdate(obs, <<>>)

\* UpdateLiveness: ord = the order in which the map iteration visits the nodes
\* that change (it fixes the order of arming and of the notifications)
LivenessRes(o, ord) ==
  LET cand == {n \in Known(o) \ {o} : ~st[o][n].left}
      down == {n \in cand : n \in susp[o] /\ ~st[o][n].unreach}
      step(acc, n) ==
        IF n \in down
        THEN [vs |-> [acc.vs EXCEPT ![n].unreach = TRUE],
              q |-> Append(acc.q, n),
              ev |-> Append(acc.ev, Ev("unreach", n, "", ""))]
        ELSE [vs |-> [acc.vs EXCEPT ![n].unreach = FALSE],
              q |-> RemoveFrom(acc.q, n),
              ev |-> Append(acc.ev, Ev("reach", n, "", ""))]
      RECURSIVE Go(_, _)
      Go(acc, s) == IF s = <<>> THEN acc ELSE Go(step(acc, Head(s)), Tail(s))
  IN Go(Acc(o), ord)

UpdateLivenessCore(o, ord) ==
  /\ alive[o]
  /\ LET cand == {n \in Known(o) \ {o} : ~st[o][n].left}
         down == {n \in cand : n \in susp[o] /\ ~st[o][n].unreach}
         up == {n \in cand : n \notin susp[o] /\ st[o][n].unreach}
         res == LivenessRes(o, ord)
     IN /\ Range(ord) = down \cup up /\ Len(ord) = Cardinality(down \cup up)
        /\ st' = [st EXCEPT ![o] = res.vs]
        /\ armq' = [armq EXCEPT ![o] = res.q]
  /\ UNCHANGED <<alive, susp, net, written, expiredBy, f4taint, relearned>>

UpdateLivenessEv(o, ord) == TagEv(o, LivenessRes(o, ord).ev)

UpdateLiveness(o, ord) == UpdateLivenessCore(o, ord) /\ evts' = UpdateLivenessEv(o, ord) /\ obs' = ObsUpdate(obs, UpdateLivenessEv(o, ord))

\* RemoveExpiredAt(t): the first k armed views (deadline order) are due; evord is
\* the order in which the map iteration announces them.
RemoveExpiredCore(o, k, evord) ==
  /\ alive[o]
  /\ k \in 1..Len(armq[o])
  /\ LET gone == {armq[o][i] : i \in 1..k}
     IN /\ Range(evord) = gone /\ Len(evord) = k
        /\ st' = [st EXCEPT ![o] = [n \in Known(o) \ gone |-> st[o][n]]]
        /\ armq' = [armq EXCEPT ![o] = SubSeq(@, k + 1, Len(@))]
        /\ susp' = [susp EXCEPT ![o] = @ \ gone]
        /\ expiredBy' = [expiredBy EXCEPT ![o] = @ \cup gone]
        /\ f4taint' = {p \in f4taint : ~(p[1] = o /\ p[2] \in gone)}
        /\ relearned' = {p \in relearned : ~(p[1] = o /\ p[2] \in gone)}
  /\ UNCHANGED <<alive, net, written>>

RemoveExpiredEv(o, k, evord) == TagEv(o, [i \in 1..k |-> Ev("expired", evord[i], "", "")])

RemoveExpired(o, k, evord) == RemoveExpiredCore(o, k, evord) /\ evts' = RemoveExpiredEv(o, k, evord) /\ obs' = ObsUpdate(obs, RemoveExpiredEv(o, k, evord))

CrashCore(n) ==
  /\ alive[n]
  /\ alive' = [alive EXCEPT ![n] = FALSE]
  /\ UNCHANGED <<st, armq, susp, net, written, expiredBy, f4taint, relearned>>

Crash(n) == CrashCore(n) /\ evts' = <<>> /\ obs' = ObsUpdate(obs, <<>>)

-----------------------------------------------------------------------------
(* Next-state relation of the bounded model.  The model restricts the       *)
(* parameters (canonical digest order, budgets from a constant) - the       *)
(* actions themselves accept every value the code can produce.              *)

Has(f) == f \in Features

\* canonical digest: all known nodes, ordered by a fixed choice
RECURSIVE SeqOfSet(_)
SeqOfSet(S) == IF S = {} THEN <<>>
               ELSE LET x == CHOOSE y \in S : TRUE IN <<x>> \o SeqOfSet(S \ {x})

RECURSIVE Perms(_)
Perms(S) == IF S = {} THEN {<<>>}
            ELSE UNION {{<<x>> \o p : p \in Perms(S \ {x})} : x \in S}

DigestSeqs(S) == IF Has("shuffle") THEN UNION {Perms(T) : T \in SUBSET S} ELSE {SeqOfSet(S)}

CutChoices(len) == {Min(len, b) : b \in Budgets}

\* Model actions: the parameters are exactly what a scheduler controls (which
\* node, which datagram, duplicate or not, where the packet budget cuts); what
\* the code chooses by itself (shuffle and map orders) is quantified inside.

DoUpsert(n, k, v) == UpsertLocal(n, k, v) /\ UpsertOp(Own(n), k, v) # Own(n)
DoDelete(n, k) == DeleteLocal(n, k) /\ DeleteOp(Own(n), k) # Own(n)
DoLeave(n) == Has("leave") /\ LeaveLocal(n) /\ ~Own(n).left
DoCompact(n) == Has("compact") /\ CompactLocal(n, 1) /\ Tombstones(Own(n)) # {}

DoRound(a, b) == FreeSlots # {} /\ \E dseq \in DigestSeqs(DigestSet(a)) : StartRound(a, b, dseq)

DoRecvDigest(slot, keep, cut) ==
  /\ slot \in DOMAIN net /\ net[slot].t = "dig"
  /\ (keep => Has("dup"))
  /\ LET b == net[slot].to
         acc == ApplyDigestSeq(Acc(b), net[slot].dig)
         len == FlatLen(DeltaSeq(acc.vs, net[slot].dig))
         rset == {[id |-> n, ver |-> acc.vs[n].ver, left |-> acc.vs[n].left] : n \in DOMAIN acc.vs}
     IN /\ cut \in CutChoices(len)
        /\ \E rseq \in (IF net[slot].req THEN DigestSeqs(rset) ELSE {<<>>}) :
              RecvDigest(slot, keep, cut, rseq, FALSE)

DoRecvDelta(slot, keep) == (keep => Has("dup")) /\ RecvDelta(slot, keep)

DoLose(slot) == Has("lose") /\ Lose(slot)

DoJoin(a, b) ==
  /\ Has("join")
  /\ LET dseq == SeqOfSet(DigestSet(a))
         own == <<NodeDelta(st[a], a, 0)>>
         accB == ApplyDigestSeq(ApplyDeltaSeq(Acc(b), b, own), dseq)
         fseq == SeqOfSet(DOMAIN accB.vs \ {e.id : e \in Range(dseq)})
     IN JoinStream(a, b, dseq, fseq)

DoLeaveNotify(a, b) == Has("leave") /\ Own(a).left /\ b \in Known(a) /\ LeaveStream(a, b)

DoSuspect(o, n, b) == Has("liveness") /\ n \in Known(o) /\ SetSuspect(o, n, b)

DoLiveness(o) ==
  /\ Has("liveness")
  /\ LET cand == {n \in Known(o) \ {o} : ~st[o][n].left}
         chg == {n \in cand : (n \in susp[o]) # st[o][n].unreach}
     IN chg # {} /\ \E ord \in Perms(chg) : UpdateLiveness(o, ord)

DoExpire(o, k) ==
  /\ Has("expire")
  /\ k \in 1..Len(armq[o])
  /\ \E evord \in {SeqOfSet({armq[o][i] : i \in 1..k})} : RemoveExpired(o, k, evord)

DoCrash(n) == n \in Crashers /\ Crash(n)

MaxCut == MaxVer + Cardinality(Node) + 2

NextWrites ==
  \/ \E n \in Writers, k \in Key, v \in Val : DoUpsert(n, k, v)
  \/ \E n \in Writers, k \in Key : DoDelete(n, k)

NextOther ==
  \/ \E n \in Writers : DoLeave(n)
  \/ \E n \in Writers : DoCompact(n)
  \/ \E a, b \in Node : DoRound(a, b)
  \/ \E slot \in 1..MaxSlots, keep \in BOOLEAN, cut \in 0..MaxCut : DoRecvDigest(slot, keep, cut)
  \/ \E slot \in 1..MaxSlots, keep \in BOOLEAN : DoRecvDelta(slot, keep)
  \/ \E slot \in 1..MaxSlots : DoLose(slot)
  \/ \E a, b \in Node : DoJoin(a, b)
  \/ \E a, b \in Node : DoLeaveNotify(a, b)
  \/ \E o, n \in Node, b \in BOOLEAN : DoSuspect(o, n, b)
  \/ \E o \in Node : DoLiveness(o)
  \/ \E o \in Node, k \in 1..Cardinality(Node) : DoExpire(o, k)
  \/ \E n \in Node : DoCrash(n)

Next == NextWrites \/ NextOther

Spec == Init /\ [][Next]_vars

-----------------------------------------------------------------------------
(* Type invariant and the properties (C02, C11, C13, C17 parts)             *)

KeysUnique ==
  \A o \in Node : \A n \in Known(o) :
    \A e, f \in st[o][n].ents : e.k = f.k => e = f

ArmedConsistent ==
  \A o \in Node :
    /\ Range(armq[o]) = {n \in Known(o) \ {o} : st[o][n].left \/ st[o][n].unreach}
    /\ Len(armq[o]) = Cardinality(Range(armq[o]))

Untainted(o, n) == <<o, n>> \notin f4taint

\* C02: nothing a node reports about another node was invented
NoFabrication ==
  \A o \in Node : \A n \in Known(o) : Untainted(o, n) => st[o][n].ents \subseteq written[n]

\* C02: a view at version v is the owner's state "up to v"
PrefixConsistent ==
  \A o \in Node : \A n \in Known(o) \ {o} : Untainted(o, n) =>
    LET vw == st[o][n]
        own == Own(n)
    IN /\ vw.ver <= own.ver
       /\ \A e \in own.ents : e.ver <= vw.ver => e \in vw.ents
       /\ \A e \in vw.ents : e.ver <= vw.ver
       /\ (\E c \in own.ents : c.int /\ c.k = COMPK /\ c.ver <= vw.ver) =>
             \A e \in vw.ents : \E f \in own.ents : f.k = e.k
       /\ (vw.ver = own.ver => vw.ents = own.ents)
       /\ (vw.left => own.left)

\* C02/C13: own state changes only by local writes; C02: versions never go back
LocalStepOf(n) ==
  \/ \E k \in Key \cup {e.k : e \in Own(n)'.ents}, v \in Val \cup {e.v : e \in Own(n)'.ents} :
       UpsertLocal(n, k, v)
  \/ \E k \in Key \cup {e.k : e \in Own(n)'.ents} : DeleteLocal(n, k)
  \/ LeaveLocal(n)
  \/ \E thr \in 0..3 : CompactLocal(n, thr)
OwnStateOnlyLocalStep == \A n \in Node : Own(n)' # Own(n) => LocalStepOf(n)

VersionMonotoneStep ==
  \A o \in Node : \A n \in Known(o) : n \in DOMAIN st'[o] => st'[o][n].ver >= st[o][n].ver

\* the same without excusing the views damaged by known finding F4 (fails in
\* the unmasked model; used to demonstrate F4)
PrefixConsistentAll ==
  \A o \in Node : \A n \in Known(o) \ {o} :
    LET vw == st[o][n]
        own == Own(n)
    IN /\ vw.ver <= own.ver
       /\ \A e \in own.ents : e.ver <= vw.ver => e \in vw.ents
       /\ (vw.ver = own.ver => vw.ents = own.ents)
       /\ (vw.left => own.left)
NoF4 == f4taint = {}

\* C11
LocalNeverFlagged == \A o \in Node : o \in Known(o) /\ ~st[o][o].unreach /\ o \notin Range(armq[o])
LeftOnlyByOwner == \A o \in Node : \A n \in Known(o) : (st[o][n].left /\ Untainted(o, n)) => Own(n).left
LeftStickyStep ==
  \A o \in Node : \A n \in Known(o) : (st[o][n].left /\ n \in DOMAIN st'[o]) => st'[o][n].left
StaysForgotten == relearned = {}
\* a node is seen as left exactly by the nodes that hold its left marker
LeftFlagMatches ==
  \A o \in Node : \A n \in Known(o) :
    st[o][n].left <=> (\E e \in st[o][n].ents : e.int /\ e.k = LEFTK /\ ~e.del)
\* C03: every live node's view of every live node is exactly that node's state
LiveNode(n) == alive[n] /\ ~Own(n).left
ConvergedLive ==
  \A o, n \in Node : (o # n /\ LiveNode(o) /\ LiveNode(n)) =>
    /\ n \in Known(o)
    /\ st[o][n].ver = Own(n).ver
    /\ st[o][n].ents = Own(n).ents
\* C18 / C11: what the survivors hold about a third node (in particular one that left or died) spreads among
\* them: at a fixpoint of fair exchanges any two live nodes that both know n hold the same version of it,
\* the same entries and the same left flag
ConvergedKnown ==
  \A o, p \in Node : (o # p /\ LiveNode(o) /\ LiveNode(p)) =>
    \A n \in (Known(o) \cap Known(p)) \ {o, p} :
      (Untainted(o, n) /\ Untainted(p, n)) =>
        /\ st[o][n].ver = st[p][n].ver
        /\ st[o][n].ents = st[p][n].ents
        /\ st[o][n].left = st[p][n].left
\* C03: a delivered delta that holds something newer about a known node moves
\* that view forward (so the version gap shrinks with every productive leg)
PullProgressFor(slot) ==
  LET o == net[slot].to IN
  \A i \in DOMAIN net[slot].d :
    LET de == net[slot].d[i] IN
    (de.id # o /\ de.id \in Known(o) /\ \E j \in DOMAIN de.ents : de.ents[j].ver > st[o][de.id].ver)
      => st'[o][de.id].ver > st[o][de.id].ver
PullProgressStep ==
  \A slot \in DOMAIN net : \A keep \in BOOLEAN : RecvDeltaCore(slot, keep) => PullProgressFor(slot)

\* F2 is reachable in the unmasked model (demonstration; expected to FAIL there)
NoRelearn == relearned = {}

\* C17: the own state as a last-write-wins map.  r[n] maps a key to the value
\* of the most recent upsert, or to Absent after a delete.
Absent == "<absent>"
LiveOf(s, k) == {e \in s.ents : e.k = k /\ ~e.del /\ ~e.int}
MatchesRefOf(r) ==
  \A n \in Node : \A k \in DOMAIN r[n] :
    /\ (r[n][k] = Absent => LiveOf(Own(n), k) = {})
    /\ (r[n][k] # Absent => \E e \in LiveOf(Own(n), k) : e.v = r[n][k])
LiveMap(s) == {<<e.k, e.v>> : e \in {x \in s.ents : ~x.del /\ ~x.int}}
VersionsWellFormed ==
  \A n \in Node :
    /\ \A e, f \in Own(n).ents : e.ver = f.ver => e = f
    /\ \A e \in Own(n).ents : e.ver >= 1 /\ e.ver <= Own(n).ver
    /\ (Own(n).ents # {} => \E e \in Own(n).ents : e.ver = Own(n).ver)
\* an effective change takes a fresh, strictly larger version
FreshVersionStep ==
  \A n \in Node : Own(n)' # Own(n) =>
    /\ Own(n)'.ver > Own(n).ver
    /\ \A e \in Own(n)'.ents \ Own(n).ents : e.ver > Own(n).ver
\* live keys keep their relative (version) order
LiveBefore(s) ==
  {p \in {<<e.k, f.k>> : e, f \in s.ents} :
     \E e, f \in s.ents : /\ ~e.del /\ ~e.int /\ ~f.del /\ ~f.int
                          /\ e.k = p[1] /\ f.k = p[2] /\ e.ver < f.ver}

\* temporal forms for the bounded model
OwnStateOnlyLocal == [][OwnStateOnlyLocalStep]_vars
VersionMonotone == [][VersionMonotoneStep]_vars
LeftSticky == [][LeftStickyStep]_vars

\* evts never influences a later step, so the model hides it
View == <<st, armq, alive, susp, net, written, expiredBy, f4taint, relearned, obs>>
ViewNoGhost == <<st, armq, alive, susp, net, expiredBy, f4taint, relearned, obs>>
\* for generating transition covers (schedules): ghosts and observers do not
\* change what is enabled
ViewCover == <<st, armq, alive, susp, net, expiredBy, f4taint, relearned>>

=============================================================================
