----------------------------- MODULE GossipObs ------------------------------
(***************************************************************************)
(* What observers of the gossip layer build from its notifications:        *)
(*   - the left fold of the Watcher notifications (C14, pkg/gossip/watcher)*)
(*   - the syncer's pending set and the routing table                      *)
(*     (C04, server/gossip/syncer.go + server/cluster/state.go)            *)
(* Pure operators only; Watcher.tla / Routing.tla (bounded models) and     *)
(* TraceG.tla (trace validation) hold the variables.                       *)
(***************************************************************************)
EXTENDS Gossip

-----------------------------------------------------------------------------
(* C14: folding the notifications *)

EmptyFoldNode == [keys |-> <<>>, left |-> FALSE, unreach |-> FALSE]
EmptyFold == [nodes |-> <<>>, bad |-> {}]

FoldEv(f, e) ==
  IF e.t = "join" THEN
    IF e.n \in DOMAIN f.nodes THEN f
    ELSE [f EXCEPT !.nodes = (e.n :> EmptyFoldNode) @@ @]
  ELSE IF e.n \notin DOMAIN f.nodes THEN [f EXCEPT !.bad = @ \cup {"EventBeforeJoin"}]
  ELSE IF e.t = "up" THEN [f EXCEPT !.nodes[e.n].keys = (e.k :> e.v) @@ @]
  ELSE IF e.t = "del" THEN [f EXCEPT !.nodes[e.n].keys = [k \in DOMAIN @ \ {e.k} |-> @[k]]]
  ELSE IF e.t = "leave" THEN [f EXCEPT !.nodes[e.n].left = TRUE]
  ELSE IF e.t = "unreach" THEN [f EXCEPT !.nodes[e.n].unreach = TRUE]
  ELSE IF e.t = "reach" THEN [f EXCEPT !.nodes[e.n].unreach = FALSE]
  ELSE IF e.t = "expired" THEN [f EXCEPT !.nodes = [n \in DOMAIN @ \ {e.n} |-> @[n]]]
  ELSE f

RECURSIVE FoldSeq(_, _, _)
FoldSeq(f, o, seq) ==
  IF seq = <<>> THEN f
  ELSE FoldSeq(IF Head(seq).o = o THEN FoldEv(f, Head(seq)) ELSE f, o, Tail(seq))

FoldAll(fd, seq) == [o \in Node |-> FoldSeq(fd[o], o, seq)]

\* what a watcher is supposed to be able to see of a view
VisibleKeys(vw) ==
  LET live == {e \in vw.ents : ~e.del /\ ~e.int}
  IN [k \in {e.k : e \in live} |-> (CHOOSE e \in live : e.k = k).v]

FoldEqualsViewOf(fd) ==
  \A o \in Node :
    /\ fd[o].bad = {}
    /\ DOMAIN fd[o].nodes = Known(o) \ {o}
    /\ \A n \in Known(o) \ {o} :
         /\ fd[o].nodes[n].keys = VisibleKeys(st[o][n])
         /\ fd[o].nodes[n].left = st[o][n].left
         /\ fd[o].nodes[n].unreach = st[o][n].unreach

InitFoldOf(s) == [o \in Node |-> [nodes |-> [n \in DOMAIN s[o] \ {o} |-> EmptyFoldNode], bad |-> {}]]

-----------------------------------------------------------------------------
(* C04: the syncer and the routing table *)

PROXY == "proxy_addr"
ADMIN == "admin_addr"
EPPREFIX == "endpoint:"

\* endpoint keys in use ("endpoint:<id>")
EpKeys == {"endpoint:e1", "endpoint:e2", "endpoint:e3"}

RNode(status, proxy, admin, eps) == [status |-> status, proxy |-> proxy, admin |-> admin, eps |-> eps]
EmptyPending == RNode("", "", "", <<>>)
EmptyRT == [table |-> <<>>, pend |-> <<>>]

Drop(f, x) == [y \in DOMAIN f \ {x} |-> f[y]]

\* counts are gossiped as decimal strings
\* the decimal value of a published count (TLC's strings are atoms: the table is built with ToString)
MaxPublishedCount == 3000
CountTable == [i \in 0..MaxPublishedCount |-> ToString(i)]
CountOf(s) ==
  IF \E i \in 0..MaxPublishedCount : CountTable[i] = s
  THEN CHOOSE i \in 0..MaxPublishedCount : CountTable[i] = s
  ELSE -1
SyncEv(r, e) ==
  LET inT == e.n \in DOMAIN r.table
      inP == e.n \in DOMAIN r.pend
  IN
  IF e.t = "join" THEN
    IF inT \/ inP THEN r ELSE [r EXCEPT !.pend = (e.n :> EmptyPending) @@ @]
  ELSE IF e.t = "leave" THEN
    IF inT THEN [r EXCEPT !.table[e.n].status = "left"]
    ELSE IF inP THEN [r EXCEPT !.pend = Drop(@, e.n)] ELSE r
  ELSE IF e.t = "reach" THEN
    IF inT THEN [r EXCEPT !.table[e.n].status = "active"]
    ELSE IF inP THEN [r EXCEPT !.pend[e.n].status = "active"] ELSE r
  ELSE IF e.t = "unreach" THEN
    IF inT THEN [r EXCEPT !.table[e.n].status = "unreachable"]
    ELSE IF inP THEN [r EXCEPT !.pend[e.n].status = "unreachable"] ELSE r
  ELSE IF e.t = "expired" THEN
    IF inT THEN [r EXCEPT !.table = Drop(@, e.n)]
    ELSE IF inP THEN [r EXCEPT !.pend = Drop(@, e.n)] ELSE r
  ELSE IF e.t = "up" THEN
    IF e.k \in {PROXY, ADMIN} /\ inT THEN r
    ELSE IF e.k \in EpKeys /\ inT THEN [r EXCEPT !.table[e.n].eps = (e.k :> CountOf(e.v)) @@ @]
    ELSE IF ~inP THEN r
    ELSE IF e.k \notin {PROXY, ADMIN} \cup EpKeys THEN r
    ELSE LET p0 == r.pend[e.n]
             p1 == IF e.k = PROXY THEN [p0 EXCEPT !.proxy = e.v]
                   ELSE IF e.k = ADMIN THEN [p0 EXCEPT !.admin = e.v]
                   ELSE [p0 EXCEPT !.eps = (e.k :> CountOf(e.v)) @@ @]
         IN IF p1.proxy # "" /\ p1.admin # ""
            THEN [table |-> (e.n :> [p1 EXCEPT !.status = IF @ = "" THEN "active" ELSE @]) @@ r.table,
                  pend |-> Drop(r.pend, e.n)]
            ELSE [r EXCEPT !.pend[e.n] = p1]
  ELSE IF e.t = "del" THEN
    IF e.k \notin EpKeys THEN r
    ELSE IF inT THEN [r EXCEPT !.table[e.n].eps = Drop(@, e.k)]
    ELSE IF inP THEN [r EXCEPT !.pend[e.n].eps = Drop(@, e.k)] ELSE r
  ELSE r

RECURSIVE SyncSeq(_, _, _)
SyncSeq(r, o, seq) ==
  IF seq = <<>> THEN r
  ELSE SyncSeq(IF Head(seq).o = o THEN SyncEv(r, Head(seq)) ELSE r, o, Tail(seq))

SyncAll(rt, seq) == [o \in Node |-> SyncSeq(rt[o], o, seq)]

InitRTOf(s) == [o \in Node |-> [table |-> <<>>, pend |-> [n \in DOMAIN s[o] \ {o} |-> EmptyPending]]]

\* the owner's published routing facts, read from its own gossip state
LiveVal(s, k) == LET es == LiveOf(s, k) IN IF es = {} THEN "" ELSE (CHOOSE e \in es : TRUE).v
Published(n) ==
  [proxy |-> LiveVal(Own(n), PROXY), admin |-> LiveVal(Own(n), ADMIN),
   eps |-> [k \in {k \in EpKeys : LiveOf(Own(n), k) # {}} |-> CountOf(LiveVal(Own(n), k))]]

StatusOf(vw) == IF vw.left THEN "left" ELSE IF vw.unreach THEN "unreachable" ELSE "active"

\* C04: caught up => the table mirrors the owner.  exc = pairs <<o, n>> with the
\* signature of known finding F5 (the syncer was told that n left while n was
\* still pending and discarded it): for those the node stays absent.
CaughtUpMirrorsExcOf(rt, exc) ==
  \A o \in Node : \A n \in Known(o) \ {o} :
    (/\ Untainted(o, n)
     /\ st[o][n].ver = Own(n).ver
     /\ Published(n).proxy # "" /\ Published(n).admin # "")
    => IF <<o, n>> \in exc
       THEN st[o][n].left /\ n \notin DOMAIN rt[o].table
       ELSE /\ n \in DOMAIN rt[o].table
            /\ rt[o].table[n].proxy = Published(n).proxy
            /\ rt[o].table[n].admin = Published(n).admin
            /\ rt[o].table[n].eps = Published(n).eps
            /\ rt[o].table[n].status = StatusOf(st[o][n])
CaughtUpMirrorsOf(rt) == CaughtUpMirrorsExcOf(rt, {})

\* F5: the nodes for which o's syncer processes a "leave" while they are pending
RECURSIVE LeftWhilePending(_, _, _)
LeftWhilePending(r, o, seq) ==
  IF seq = <<>> THEN {}
  ELSE LET ev == Head(seq)
           mine == ev.o = o
       IN (IF mine /\ ev.t = "leave" /\ ev.n \in DOMAIN r.pend /\ ev.n \notin DOMAIN r.table
           THEN {ev.n} ELSE {})
          \cup LeftWhilePending(IF mine THEN SyncEv(r, ev) ELSE r, o, Tail(seq))

\* the same without excusing views damaged by known finding F4 (used to
\* demonstrate the harm of F4 on the real code)
CaughtUpMirrorsStrictOf(rt) ==
  \A o \in Node : \A n \in Known(o) \ {o} :
    (/\ st[o][n].ver = Own(n).ver
     /\ Published(n).proxy # "" /\ Published(n).admin # "")
    => /\ n \in DOMAIN rt[o].table
       /\ rt[o].table[n].eps = Published(n).eps

\* C04/C11: status tracks the membership flags even before catching up
StatusTracksOf(rt) ==
  \A o \in Node : \A n \in DOMAIN rt[o].table :
    n \in Known(o) /\ rt[o].table[n].status = StatusOf(st[o][n])

NoOrphansOf(rt) ==
  \A o \in Node :
    /\ o \notin DOMAIN rt[o].table /\ o \notin DOMAIN rt[o].pend
    /\ (DOMAIN rt[o].table \cup DOMAIN rt[o].pend) \subseteq Known(o)
    /\ DOMAIN rt[o].table \cap DOMAIN rt[o].pend = {}

\* every node the gossip state knows is tracked by the syncer: pending or in the routing table (a node that
\* left may have been discarded while it was pending: known finding F5 / the syncer's own rule)
AllKnownTrackedOf(rt) ==
  \A o \in Node : \A n \in Known(o) \ {o} :
    n \in DOMAIN rt[o].table \/ n \in DOMAIN rt[o].pend \/ st[o][n].left

\* LookupEndpoint(e) may return any active remote node advertising e
LookupCandidates(r, k) ==
  {n \in DOMAIN r.table : r.table[n].status = "active" /\ k \in DOMAIN r.table[n].eps /\ r.table[n].eps[k] > 0}

=============================================================================
