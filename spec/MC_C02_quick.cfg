SPECIFICATION Spec
CONSTANTS
  Node = {"a", "b"}
  Key = {"k1", "k2"}
  Val = {"", "x"}
  MaxVer = 4
  MaxSlots = 2
  Writers = {"a"}
  Crashers = {}
  Features = {"leave", "compact", "lose", "expire"}
  Budgets = {2, 99}
  InitKnown = TRUE
  MaskF2 = TRUE
  MaskF4 = TRUE
VIEW View
CHECK_DEADLOCK FALSE
INVARIANT KeysUnique
INVARIANT ArmedConsistent
INVARIANT NoFabrication
INVARIANT PrefixConsistent
INVARIANT LocalNeverFlagged
INVARIANT LeftOnlyByOwner
PROPERTY OwnStateOnlyLocal
PROPERTY VersionMonotone
PROPERTY LeftSticky
