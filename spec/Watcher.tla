------------------------------- MODULE Watcher ------------------------------
(***************************************************************************)
(* C14 on the bounded model: the left fold of the notifications a watcher  *)
(* receives equals the node's visible view after every step.               *)
(* Run with  ObsInit <- InitFoldOf,  ObsUpdate <- FoldAll  so that obs is  *)
(* the fold.                                                               *)
(***************************************************************************)
EXTENDS GossipObs

FoldEqualsView == FoldEqualsViewOf(obs)
=============================================================================
