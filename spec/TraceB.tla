------------------------------- MODULE TraceB --------------------------------
(***************************************************************************)
(* Validation of the real retry policy (pkg/backoff, harness cmd/beng)     *)
(* against Backoff.tla.  A "Reset" line is a fresh Backoff value, a "Call" *)
(* line one call of Backoff() with what it returned (nanoseconds).  All    *)
(* variables are bound from the lines; the invariants of Backoff.tla are   *)
(* evaluated on them, the step properties as step violations, and the call *)
(* is compared with the action Call (the jitter chosen = the one observed) *)
(* as drift.                                                               *)
(***************************************************************************)
EXTENDS Backoff, Json, TLC, Sequences

Log == ndJsonDeserialize("trace.ndjson")

VARIABLES l, viol, drift
tvars == <<vars, l, viol, drift>>

TraceInit == l = 1 /\ viol = {} /\ drift = 0 /\ Init

\* Call with the jitter that was observed
CallAs(e) == IF GiveUp THEN ~e.ok /\ e.out = 0 ELSE e.ok /\ e.out \in Jittered(Base)

StepViolations(e) ==
  (IF e.ok /\ last # 0 /\ 2 * last <= Max /\ e.out < 2 * last THEN {"Doubles"} ELSE {})
  \cup (IF e.ok /\ last >= Max /\ e.out < Max THEN {"StaysAtCap"} ELSE {})
  \cup (IF ~e.ok /\ e.out # 0 THEN {"NoWaitWhenGivingUp"} ELSE {})

TraceNext ==
  /\ l <= Len(Log)
  /\ l' = l + 1
  /\ LET e == Log[l]
         reset == e.op = "Reset"
     IN /\ out' = IF reset THEN 0 ELSE e.out
        /\ ok' = IF reset THEN TRUE ELSE e.ok
        /\ attempts' = IF reset THEN 0 ELSE IF e.ok THEN attempts + 1 ELSE attempts
        /\ last' = IF reset THEN 0 ELSE IF e.ok THEN e.out ELSE last
        /\ calls' = IF reset THEN 0 ELSE calls + 1
        /\ viol' = IF reset THEN {} ELSE StepViolations(e)
        /\ drift' = drift + (IF reset \/ CallAs(e) THEN 0 ELSE 1)

TraceSpec == TraceInit /\ [][TraceNext]_tvars

NoStepViolation == viol = {}
Consumed ==
  /\ PrintT(<<"TRACE-RESULT", TLCGet("stats").diameter - 1, Len(Log)>>)
  /\ TLCGet("stats").diameter - 1 = Len(Log)
DriftReport == l <= Len(Log) \/ PrintT(<<"TRACE-COUNTERS", drift, 0, 0>>)
=============================================================================
