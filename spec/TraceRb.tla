------------------------------- MODULE TraceRb -------------------------------
(***************************************************************************)
(* Validation of Rebalance() calls on the real upstream.Server (harness    *)
(* cmd/reng) against Rebalance.tla: every line is one configuration with   *)
(* the number of sessions the real call closed (shed), the average the     *)
(* real cluster.State computed (avg) and the open sessions before (open).  *)
(* The clauses of the property are evaluated on the observed shed count.   *)
(***************************************************************************)
EXTENDS Rebalance, Json, TLC

Log == ndJsonDeserialize("trace.ndjson")

VARIABLES l, drift, shed, avg, open
tvars == <<vars, l, drift, shed, avg, open>>

TraceInit ==
  /\ l = 1 /\ drift = 0 /\ shed = 0 /\ avg = 0 /\ open = 0
  /\ local = 0 /\ others = <<>> /\ thr = <<0, 1>> /\ rate = <<0, 1>> /\ minc = 0

TraceNext ==
  /\ l <= Len(Log)
  /\ l' = l + 1
  /\ LET e == Log[l] IN
     /\ local' = e.local
     /\ others' = [i \in DOMAIN e.others |-> [status |-> e.others[i].status, conns |-> e.others[i].conns]]
     /\ thr' = <<e.tn, e.td>>
     /\ rate' = <<e.rn, e.rd>>
     /\ minc' = e.minc
     /\ shed' = e.shed
     /\ avg' = e.avg
     /\ open' = e.open
     /\ drift' = drift + (IF e.op = "Reset" \/ e.shed = ShedOf(local', others', thr', rate', minc') THEN 0 ELSE 1)

TraceSpec == TraceInit /\ [][TraceNext]_tvars

ObsShedOnlyIfAllGuards == ShedOnlyIfAllGuardsOf(shed)
ObsAtMostCeilRateAvgAndAtLeastOne == AtMostRateOf(shed)
ObsNeverMoreThanOpen == NeverMoreThanOpenOf(shed) /\ open = local
ObsAtOrBelowAverageShedsNothing == AtOrBelowAverageShedsNothingOf(shed)
\* AvgConns(): whole connections per ACTIVE node
ObsAverage == avg = A

Consumed ==
  /\ PrintT(<<"TRACE-RESULT", TLCGet("stats").diameter - 1, Len(Log)>>)
  /\ TLCGet("stats").diameter - 1 = Len(Log)
DriftReport == l <= Len(Log) \/ PrintT(<<"TRACE-COUNTERS", drift, 0, 0>>)
=============================================================================
