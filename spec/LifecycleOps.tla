---------------------------- MODULE LifecycleOps ------------------------------
(***************************************************************************)
(* C16: the life of upstream connections on one server node, as functions  *)
(* on a state record.  Lifecycle.tla turns them into actions (one per step *)
(* of the code); TraceL.tla applies the same functions to the events       *)
(* recorded from a real node.                                              *)
(*   server/upstream/server.go   upstreamRoute: upgrade, addSession,       *)
(*       AddConn, wait in AcceptStreamWithContext, deferred RemoveConn /   *)
(*       removeSession / Close; shedSessions; Shutdown (context cancel);   *)
(*       token deadline (context.WithDeadline)                             *)
(*   server/proxy/*.go           RemoveConn when Dial returns ErrGone      *)
(*   client/listener.go          Close = go-away (stops accepting and      *)
(*       reconnecting), Accept reconnects after a session loss             *)
(***************************************************************************)
EXTENDS Integers, FiniteSets

CONSTANTS ConnE1, ConnE2,   \* connection (listener) identities per endpoint
          ExpConn,          \* scenario driver: the listeners whose token carries an expiry (far in the future)
          MaxClock,         \* discrete clock bound (token deadlines)
          DisableExpiry     \* disconnect-on-expiry disabled

Conn == ConnE1 \cup ConnE2
Ep(c) == IF c \in ConnE1 THEN "e1" ELSE "e2"
Eps == {"e1", "e2"}
Causes == {"client-close", "drop", "shed", "token-expiry", "shutdown"}

(* s.cst[c]      "idle" | "open" | "goaway" | "ending" | "gone"
   s.acc[c]      the client is accepting: it reconnects when the session is lost
   s.reg         upstreams registered with the manager
   s.sess        sessions held by the upstream server
   s.adv[e]      count advertised to the cluster
   s.down        the server is shutting down
   s.clock, s.deadline[c]   discrete time, token expiry (0 = none)
   s.why[c]      cause of the end of c ("" while alive)                    *)
InitState ==
  [cst |-> [c \in Conn |-> "idle"], acc |-> [c \in Conn |-> FALSE], reg |-> {}, sess |-> {},
   adv |-> [e \in Eps |-> 0], down |-> FALSE, clock |-> 0,
   deadline |-> [c \in Conn |-> 0], why |-> [c \in Conn |-> ""]]

\* the handler registers the connection (addSession, AddConn); an expired token is refused by the middleware
ConnectOK(s, c, dl) == ~s.down /\ s.cst[c] = "idle" /\ (dl = 0 \/ dl > s.clock)
ConnectF(s, c, dl) ==
  [s EXCEPT !.cst[c] = "open", !.acc[c] = TRUE, !.sess = @ \cup {c}, !.reg = @ \cup {c},
            !.adv[Ep(c)] = @ + 1, !.deadline[c] = dl, !.why[c] = ""]

\* the client stops accepting (listener.Close -> yamux go-away); the connection stays open
GoAwayOK(s, c) == s.cst[c] = "open"
GoAwayF(s, c) == [s EXCEPT !.cst[c] = "goaway", !.acc[c] = FALSE]

\* a proxied request picks c; if it announced go-away the proxy removes it
DialOK(s, c) == c \in s.reg
DialF(s, c) == IF s.cst[c] = "goaway" THEN [s EXCEPT !.reg = @ \ {c}, !.adv[Ep(c)] = @ - 1] ELSE s

\* the connection ends: AcceptStreamWithContext returns
EndOK(s, c, cause) ==
  /\ s.cst[c] \in {"open", "goaway"}
  /\ cause \in Causes
  /\ (cause = "token-expiry" => s.deadline[c] # 0 /\ s.clock >= s.deadline[c] /\ ~DisableExpiry)
  /\ (cause = "shutdown" => s.down)
EndF(s, c, cause) ==
  [s EXCEPT !.cst[c] = "ending", !.why[c] = cause, !.acc[c] = IF cause = "client-close" THEN FALSE ELSE @]

\* the deferred calls run: RemoveConn (a no-op if the proxy already removed it), removeSession, close
ExitOK(s, c) == s.cst[c] = "ending"
ExitF(s, c) ==
  LET t == [s EXCEPT !.cst[c] = "gone", !.sess = @ \ {c}] IN
  IF c \in s.reg THEN [t EXCEPT !.reg = @ \ {c}, !.adv[Ep(c)] = @ - 1] ELSE t

\* the client dials again (the reconnect loop of an accepting listener, or a new listener with the same identity)
RedialOK(s, c) == s.cst[c] = "gone"
RedialF(s, c) == [s EXCEPT !.cst[c] = "idle"]

ShutdownF(s) == [s EXCEPT !.down = TRUE]
TickF(s) == [s EXCEPT !.clock = @ + 1]

-----------------------------------------------------------------------------
(* Properties, as predicates on a state record *)
AliveIn(s, c) == s.cst[c] \in {"open", "goaway"}
AliveSet(s) == {c \in Conn : AliveIn(s, c)}
OpenSet(s) == {c \in Conn : s.cst[c] = "open"}
CountOn(S, e) == Cardinality({c \in S : Ep(c) = e})

SessionsAreHandlersP(s) == s.sess = {c \in Conn : s.cst[c] \in {"open", "goaway", "ending"}}
RegSubsetSessP(s) == s.reg \subseteq s.sess
AdvMatchesRegP(s) == \A e \in Eps : s.adv[e] = CountOn(s.reg, e)
QuiescentP(s) == \A c \in Conn : s.cst[c] # "ending"
\* at quiescence the registry is the open connections (minus those that announced go-away and were dropped by the proxy)
RegistryIsOpenConnsP(s) ==
  QuiescentP(s) => /\ s.reg \subseteq AliveSet(s)
                   /\ OpenSet(s) \subseteq s.reg
                   /\ s.sess = AliveSet(s)
AllGoneAdvertisesNothingP(s) ==
  (\A c \in Conn : s.cst[c] \in {"idle", "gone"}) => (s.reg = {} /\ s.sess = {} /\ \A e \in Eps : s.adv[e] = 0)
NotClosedBeforeExpiryP(s) ==
  \A c \in Conn : s.why[c] = "token-expiry" => (s.deadline[c] # 0 /\ s.clock >= s.deadline[c] /\ ~DisableExpiry)

-----------------------------------------------------------------------------
(* Macro steps: what one command of the scenario driver (and one line of a  *)
(* recorded trace) amounts to once the node is quiescent again.             *)

\* the connection ends, the handler cleans up, and an accepting client is back as soon as it can be
FinishF(s, c, cause) ==
  LET t == ExitF(EndF(s, c, cause), c) IN
  IF t.acc[c]
  THEN LET r == RedialF(t, c) IN IF ConnectOK(r, c, s.deadline[c]) THEN ConnectF(r, c, s.deadline[c]) ELSE r
  ELSE t

RECURSIVE FinishAll(_, _, _)
FinishAll(s, X, cause) ==
  IF X = {} THEN s
  ELSE LET c == CHOOSE x \in X : TRUE IN FinishAll(FinishF(s, c, cause), X \ {c}, cause)

\* a new listener for an identity that is not connected
ListenOK(s, c) == ~s.down /\ s.cst[c] \in {"idle", "gone"}
TokenDl(c) == IF c \in ExpConn THEN MaxClock + 1 ELSE 0
ListenF(s, c) == ConnectF(IF s.cst[c] = "gone" THEN RedialF(s, c) ELSE s, c, TokenDl(c))

\* a request for endpoint e: every upstream the load balancer may pick
RequestSucc(s, e) ==
  LET cand == {c \in s.reg : Ep(c) = e} IN
  IF cand = {} THEN {s} ELSE {DialF(s, c) : c \in cand}

\* shedding closes any set of sessions
ShedSucc(s) == {FinishAll(s, X, "shed") : X \in SUBSET s.sess}

StopF(s) == FinishAll(ShutdownF(s), AliveSet(s), "shutdown")
=============================================================================
