----------------------------- MODULE MC_Rebalance -----------------------------
(* Constant values for Rebalance.tla that a TLC config file cannot express   *)
(* (tuples).  Thresholds and rates are dyadic fractions, exactly             *)
(* representable as float64, so the code's floating point arithmetic is      *)
(* exact on them.                                                            *)
EXTENDS Rebalance

QThresholds == {<<0, 1>>, <<1, 8>>, <<1, 2>>, <<1, 1>>, <<2, 1>>}
QRates == {<<0, 1>>, <<1, 128>>, <<1, 8>>, <<1, 2>>, <<1, 1>>}
TThresholds == {<<0, 1>>, <<1, 16>>, <<1, 8>>, <<1, 4>>, <<1, 2>>, <<1, 1>>, <<2, 1>>, <<3, 2>>}
TRates == {<<0, 1>>, <<1, 256>>, <<1, 128>>, <<1, 16>>, <<1, 8>>, <<1, 4>>, <<1, 2>>, <<3, 4>>, <<1, 1>>}
=============================================================================
