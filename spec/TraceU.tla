------------------------------- MODULE TraceU --------------------------------
(***************************************************************************)
(* Validation of executions of the real upstream registry (harness engine  *)
(* U, cmd/ueng) against Upstreams.tla.  Every line is one call on the real *)
(* LoadBalancedManager with, read back afterwards: the balancers (order +  *)
(* cursor), Manager.Endpoints(), cluster.State's local endpoint counts and *)
(* the live endpoint:* keys of the real gossip state.  All state variables *)
(* are bound from the line; the invariants of Upstreams.tla are evaluated  *)
(* on them (layer B); the step is also compared with the spec action       *)
(* (layer A, counted as drift).  A "Quiesce" line ends a concurrent        *)
(* episode: it carries the observed quiescent state and every call with    *)
(* its begin/end ticks.                                                    *)
(***************************************************************************)
EXTENDS Upstreams, Json

Log == ndJsonDeserialize("trace.ndjson")

VARIABLES l, viol, drift, mgr
tvars == <<vars, l, viol, drift, mgr>>

ECOf(arr) == [x \in {arr[i].e : i \in DOMAIN arr} |-> arr[CHOOSE i \in DOMAIN arr : arr[i].e = x].c]
LBOf(arr) ==
  [x \in {arr[i].e : i \in DOMAIN arr} |->
     LET r == arr[CHOOSE i \in DOMAIN arr : arr[i].e = x] IN [ups |-> r.ups, next |-> r.next]]

TraceInit ==
  /\ l = 1 /\ viol = {} /\ drift = 0 /\ mgr = <<>>
  /\ Init

SpecStep(e) ==
  CASE e.op = "AddConn" -> AddConn(e.u)
    [] e.op = "RemoveConn" -> RemoveConn(e.u)
    [] e.op = "CloseSess" -> CloseSess(e.u)
    [] e.op = "RemoteAdv" -> RemoteAdv(e.e)
    [] e.op = "RemoteWithdraw" -> RemoteWithdraw(e.e)
    [] e.op = "RemoteStatus" -> RemoteStatus(e.allow)
    [] e.op = "Select" -> Select(e.e, e.allow)
    [] OTHER -> TRUE

\* a selection observed during a concurrent episode must be explainable: the
\* upstream's AddConn had begun before the Select returned and no RemoveConn
\* of it had returned before the Select began; "none" only if no upstream of
\* the endpoint was registered during the whole call
ConcOK(calls) ==
  \A i \in DOMAIN calls :
    LET c == calls[i] IN
    c.kind = "sel" =>
      IF c.res \in Up
      THEN /\ EpOf[c.res] = c.e
           /\ \E j \in DOMAIN calls : calls[j].kind = "add" /\ calls[j].u = c.res /\ calls[j].b < c.f
           /\ ~\E j \in DOMAIN calls : calls[j].kind = "rm" /\ calls[j].u = c.res /\ calls[j].f < c.b
      ELSE /\ c.res \in {NONE, REMOTE}
           /\ ~\E u \in Up :
                /\ EpOf[u] = c.e
                /\ \E j \in DOMAIN calls : calls[j].kind = "add" /\ calls[j].u = u /\ calls[j].f < c.b
                /\ ~\E j \in DOMAIN calls : calls[j].kind = "rm" /\ calls[j].u = u /\ calls[j].b < c.f

StepViolations(e) ==
  IF e.op = "Reset" THEN {}
  ELSE
    (IF e.op = "Select" /\ Registered(e.e) # {} /\ e.res \notin Registered(e.e) THEN {"SelectValid"} ELSE {})
    \cup (IF e.op = "Select" /\ Registered(e.e) = {} /\ e.res \notin {NONE, REMOTE} THEN {"SelectValid"} ELSE {})
    \cup (IF e.op = "Select" /\ ~e.allow /\ e.res = REMOTE THEN {"NoRemoteWhenNotAllowed"} ELSE {})
    \cup (IF e.op = "Select" /\ e.res = REMOTE /\ ~RemoteServes(e.e) THEN {"RemoteOnlyIfAdvertised"} ELSE {})
    \cup (IF e.op = "Select" /\ Registered(e.e) = {} /\ e.allow /\ RemoteServes(e.e) /\ e.res # REMOTE
          THEN {"RemoteWhenAvailable"} ELSE {})
    \cup (IF e.op = "Quiesce" /\ ~ConcOK(e.calls) THEN {"ConcurrentSelectValid"} ELSE {})

TraceNext ==
  /\ l <= Len(Log)
  /\ l' = l + 1
  /\ LET e == Log[l]
         reset == e.op = "Reset"
         quiesce == e.op = "Quiesce"
         pre == IF e.e \in DOMAIN lb THEN lb[e.e] ELSE [ups |-> <<>>, next |-> 0]
         n == Len(pre.ups)
     IN /\ lb' = LBOf(e.lb)
        /\ count' = ECOf(e.count)
        /\ pub' = ECOf(e.pub)
        /\ mgr' = ECOf(e.mgr)
        /\ added' = IF reset THEN {}
                    ELSE IF e.op = "AddConn" THEN added \cup {e.u}
                    ELSE IF quiesce THEN added \cup {e.calls[i].u : i \in {j \in DOMAIN e.calls : e.calls[j].kind = "add"}}
                    ELSE added
        /\ closed' = IF reset \/ quiesce THEN {}
                     ELSE IF e.op = "CloseSess" THEN closed \cup {e.u}
                     ELSE IF e.op = "RemoveConn" THEN closed \ {e.u}
                     ELSE closed
        /\ radv' = IF reset THEN Remote
                   ELSE IF e.op = "RemoteAdv" THEN radv \cup {e.e}
                   ELSE IF e.op = "RemoteWithdraw" THEN radv \ {e.e}
                   ELSE radv
        /\ rup' = IF reset THEN TRUE ELSE IF e.op = "RemoteStatus" THEN e.allow ELSE rup
        /\ last' = IF e.op = "Select" THEN e.res ELSE ""
        /\ recent' = IF reset \/ quiesce THEN [x \in Ep |-> <<>>]
                     ELSE IF e.op \in {"AddConn", "RemoveConn"}
                          THEN IF Registered(e.e) # (IF e.e \in DOMAIN lb' THEN Range(lb'[e.e].ups) ELSE {})
                               THEN [recent EXCEPT ![e.e] = <<>>] ELSE recent
                     ELSE IF e.op = "Select" /\ n > 0
                          THEN [recent EXCEPT ![e.e] = IF Len(@) < n THEN Append(@, e.res) ELSE Append(Tail(@), e.res)]
                     ELSE recent
        /\ wait' = IF reset \/ quiesce THEN [u \in Up |-> 0]
                   ELSE IF e.op = "AddConn" THEN [wait EXCEPT ![e.u] = 0]
                   ELSE IF e.op = "Select" /\ n > 0
                        THEN [x \in Up |-> IF x = e.res THEN 0
                                           ELSE IF x \in Range(pre.ups) /\ wait[x] < MaxSel THEN wait[x] + 1
                                           ELSE wait[x]]
                   ELSE wait
        /\ viol' = StepViolations(e)
        /\ drift' = drift + (IF reset \/ quiesce \/ SpecStep(e) THEN 0 ELSE 1)

TraceSpec == TraceInit /\ [][TraceNext]_tvars

NoStepViolation == viol = {}
\* Manager.Endpoints() is the size of every balancer
MgrMatches == mgr = [e \in DOMAIN lb |-> Len(lb[e].ups)]

Consumed ==
  /\ PrintT(<<"TRACE-RESULT", TLCGet("stats").diameter - 1, Len(Log)>>)
  /\ TLCGet("stats").diameter - 1 = Len(Log)
DriftReport == l <= Len(Log) \/ PrintT(<<"TRACE-COUNTERS", drift, 0, 0>>)
=============================================================================
