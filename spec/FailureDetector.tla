--------------------------- MODULE FailureDetector ---------------------------
(***************************************************************************)
(* C12: the accrual failure detector's arrival window for one peer         *)
(* (pkg/gossip/failuredetector.go: arrivalIntervals, arrivalWindow).       *)
(* Time is in integer units.  The window is the circular buffer the code   *)
(* keeps (intervals, index, isFull, sum); hist is a ghost: every sample    *)
(* ever added (the first one is the bootstrap interval).                   *)
(* The suspicion level at time last+d is d / mean = d * size / sum; it is  *)
(* kept as the exact fraction <<d * size, sum>>.                           *)
(***************************************************************************)
EXTENDS Integers, Sequences, FiniteSets

CONSTANTS W,        \* sample window size
          B,        \* bootstrap interval
          Gaps,     \* possible inter-arrival gaps
          MaxLen,   \* bound on the number of arrivals (model only)
          Theta     \* unreachable threshold (20 in the code)

VARIABLES buf,     \* buf[i], i \in 0..W-1 : the circular buffer
          index, isFull, sum,
          seen,    \* FALSE until the first arrival
          hist     \* ghost: all samples in order

vars == <<buf, index, isFull, sum, seen, hist>>

Init ==
  /\ buf = [i \in 0..(W - 1) |-> 0]
  /\ index = 0 /\ isFull = FALSE /\ sum = 0
  /\ seen = FALSE
  /\ hist = <<>>

\* arrivalIntervals.Add
AddSample(x) ==
  LET idx == IF index = W THEN 0 ELSE index
      full == isFull \/ index = W
      s1 == IF full THEN sum - buf[idx] ELSE sum
  IN /\ buf' = [buf EXCEPT ![idx] = x]
     /\ index' = idx + 1
     /\ isFull' = full
     /\ sum' = s1 + x
     /\ hist' = Append(hist, x)

\* arrivalWindow.Add: the first arrival records the bootstrap interval
Report(gap) ==
  /\ Len(hist) < MaxLen
  /\ IF seen THEN AddSample(gap) ELSE AddSample(B)
  /\ seen' = TRUE

\* SuspicionLevelAt for a peer that has no window (never heard from, or removed):
\* the time of the query counts as its first arrival (the bootstrap sample)
FirstQuery ==
  /\ ~seen
  /\ Len(hist) < MaxLen
  /\ AddSample(B)
  /\ seen' = TRUE

\* accrualFailureDetector.Remove: the peer's window is discarded; whatever is
\* heard from it (or from any other peer) afterwards starts from an empty window
Remove ==
  /\ seen
  /\ buf' = [i \in 0..(W - 1) |-> 0]
  /\ index' = 0 /\ isFull' = FALSE /\ sum' = 0
  /\ seen' = FALSE
  /\ hist' = <<>>

Next == (\E gap \in Gaps : Report(gap)) \/ FirstQuery \/ Remove
Spec == Init /\ [][Next]_vars

-----------------------------------------------------------------------------
Size == IF isFull THEN W ELSE index
\* Phi at time last + d, as an exact fraction
PhiNum(d) == d * Size
PhiDen == sum

RECURSIVE SumSeq(_)
SumSeq(s) == IF s = <<>> THEN 0 ELSE Head(s) + SumSeq(Tail(s))
LastN(s, n) == SubSeq(s, Len(s) - n + 1, Len(s))
Recent == LastN(hist, IF Len(hist) < W THEN Len(hist) ELSE W)

SizeIsRecent == Size = Len(Recent)
SumIsLastW == sum = SumSeq(Recent)
Count(s, x) == Cardinality({i \in DOMAIN s : s[i] = x})
BufferIsLastW ==
  \A x \in Gaps \cup {B} :
    Cardinality({i \in 0..(Size - 1) : buf[i] = x}) = Count(Recent, x)
\* the invariant that FDInd.tla proves inductive (for runs of any length) with Apalache
RECURSIVE SumBufTo(_)
SumBufTo(n) == IF n = 0 THEN 0 ELSE buf[n - 1] + SumBufTo(n - 1)
SumIsBuffer == sum = SumBufTo(Size)
FirstSampleIsBootstrap == hist # <<>> => hist[1] = B
IndexInRange == index \in 0..W /\ (isFull \/ index = Len(hist))

\* steady arrivals are never suspected: if every sample in the window lies in
\* [lo, hi] then at the next arrival (after a gap of at most hi) the level is
\* at most hi / lo
MinOf(s) == CHOOSE x \in {s[i] : i \in DOMAIN s} : \A i \in DOMAIN s : x <= s[i]
MaxOf(s) == CHOOSE x \in {s[i] : i \in DOMAIN s} : \A i \in DOMAIN s : s[i] <= x
Accuracy ==
  seen => \A d \in 0..MaxOf(Recent) : PhiNum(d) * MinOf(Recent) <= MaxOf(Recent) * PhiDen
\* a peer that stays silent always crosses the threshold: once the silence
\* exceeds Theta times the longest recent gap the level is above Theta
Completeness ==
  seen => \A d \in (Theta * MaxOf(Recent) + 1)..(Theta * MaxOf(Recent) + 3) : PhiNum(d) > Theta * PhiDen
ZeroAtArrival == seen => PhiNum(0) = 0 /\ PhiDen > 0
=============================================================================
