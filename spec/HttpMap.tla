------------------------------- MODULE HttpMap --------------------------------
(***************************************************************************)
(* C08: what the HTTP proxy answers (server/proxy/server.go proxyHTTPRoute,*)
(* httpproxy.go ServeHTTP / errorHandler) as a decision table over         *)
(*   known    - an endpoint can be determined from the request             *)
(*   route    - "local" (entry node has the upstream) | "forwarded"        *)
(*   ups      - "ok" | "absent" | "goaway" | "close-early" | "close-mid"   *)
(*              | "slow" (slower than the configured timeout)              *)
(*   upgrade  - "none" | "websocket" (no timeout applies) | "other" (any   *)
(*              other Upgrade header: the timeout applies)                 *)
(*   client   - "stays" | "half-close" (the client shuts down its sending   *)
(*              side once the request is sent and keeps reading: Go's      *)
(*              server cancels the request, which races with the answer)   *)
(* TLC enumerates every combination; Answer is written the way the code    *)
(* decides and the invariants state the property.                          *)
(***************************************************************************)
EXTENDS Integers

VARIABLES known, route, ups, upgrade, client
vars == <<known, route, ups, upgrade, client>>

Init ==
  /\ known \in BOOLEAN
  /\ route \in {"local", "forwarded"}
  /\ ups \in {"ok", "absent", "goaway", "close-early", "close-mid", "slow"}
  /\ upgrade \in {"none", "websocket", "other"}
  /\ client \in {"stays", "half-close"}
Next == UNCHANGED vars
Spec == Init /\ [][Next]_vars

\* what the client gets: a status piko produced itself, or "upstream" = whatever the upstream
\* produced passed through, or "broken" = a response that visibly did not complete
Answer(k, u, g) ==
  IF ~k THEN "400"                       \* proxyHTTPRoute: missing endpoint id
  ELSE IF u = "absent" THEN "502"        \* Select finds nothing: no available upstreams
  ELSE IF u = "goaway" THEN "502"        \* Dial returns ErrGone: upstream unreachable
  ELSE IF u = "close-early" THEN "502"   \* transport error before the response headers
  ELSE IF u = "close-mid" THEN "broken"  \* headers already passed through; the body is cut
  ELSE IF u = "slow" /\ g # "websocket" THEN "504"    \* context deadline: upstream timeout
  ELSE "upstream"

Ans == Answer(known, ups, upgrade)

\* everything the client may get: with a client that half-closed, an answer that would have been
\* passed through may also be abandoned (the request was cancelled) - then piko answers 502
Answers(k, u, g, c) ==
  {Answer(k, u, g)} \cup (IF c = "half-close" /\ Answer(k, u, g) \in {"upstream", "broken", "504"} THEN {"502"} ELSE {})
Allowed == Answers(known, ups, upgrade, client)
OnlyGatewayErrorsOrTheUpstream == Allowed \subseteq {"400", "502", "504", "upstream", "broken"}

PikoAnswersOnly400_502_504 == Ans \in {"400", "502", "504", "upstream", "broken"}
MissingEndpointIs400 == ~known => Ans = "400"
UnavailableIs502 == (known /\ ups \in {"absent", "goaway", "close-early"}) => Ans = "502"
SlowIs504UnlessUpgrade == (known /\ ups = "slow") => (Ans = "504" <=> upgrade # "websocket")
NoFabricatedSuccess == Ans = "upstream" => (known /\ ups \in {"ok", "slow"})
SameAnswerOnBothRoutes == TRUE   \* Answer does not depend on route: forwarded requests get the same mapping
=============================================================================
