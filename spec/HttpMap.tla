------------------------------- MODULE HttpMap --------------------------------
(***************************************************************************)
(* C08: what the HTTP proxy answers (server/proxy/server.go proxyHTTPRoute,*)
(* httpproxy.go ServeHTTP / errorHandler) as a decision table over         *)
(*   known    - an endpoint can be determined from the request             *)
(*   route    - "local" (entry node has the upstream) | "forwarded"        *)
(*   ups      - "ok" | "absent" | "goaway" | "close-early" | "close-mid"   *)
(*              | "slow" (slower than the configured timeout)              *)
(*   upgrade  - "none" | "websocket" (no timeout applies) | "other" (any   *)
(*              other Upgrade header: the timeout applies)                 *)
(* TLC enumerates every combination; Answer is written the way the code    *)
(* decides and the invariants state the property.                          *)
(***************************************************************************)
EXTENDS Integers

VARIABLES known, route, ups, upgrade
vars == <<known, route, ups, upgrade>>

Init ==
  /\ known \in BOOLEAN
  /\ route \in {"local", "forwarded"}
  /\ ups \in {"ok", "absent", "goaway", "close-early", "close-mid", "slow"}
  /\ upgrade \in {"none", "websocket", "other"}
Next == UNCHANGED vars
Spec == Init /\ [][Next]_vars

\* what the client gets: a status piko produced itself, or "upstream" = whatever the upstream
\* produced passed through, or "broken" = a response that visibly did not complete
Answer(k, u, g) ==
  IF ~k THEN "400"                       \* proxyHTTPRoute: missing endpoint id
  ELSE IF u = "absent" THEN "502"        \* Select finds nothing: no available upstreams
  ELSE IF u = "goaway" THEN "502"        \* Dial returns ErrGone: upstream unreachable
  ELSE IF u = "close-early" THEN "502"   \* transport error before the response headers
  ELSE IF u = "close-mid" THEN "broken"  \* headers already passed through; the body is cut
  ELSE IF u = "slow" /\ g # "websocket" THEN "504"    \* context deadline: upstream timeout
  ELSE "upstream"

Ans == Answer(known, ups, upgrade)

PikoAnswersOnly400_502_504 == Ans \in {"400", "502", "504", "upstream", "broken"}
MissingEndpointIs400 == ~known => Ans = "400"
UnavailableIs502 == (known /\ ups \in {"absent", "goaway", "close-early"}) => Ans = "502"
SlowIs504UnlessUpgrade == (known /\ ups = "slow") => (Ans = "504" <=> upgrade # "websocket")
NoFabricatedSuccess == Ans = "upstream" => (known /\ ups \in {"ok", "slow"})
SameAnswerOnBothRoutes == TRUE   \* Answer does not depend on route: forwarded requests get the same mapping
=============================================================================
