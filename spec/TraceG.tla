------------------------------- MODULE TraceG -------------------------------
(***************************************************************************)
(* Validation of executions of the real gossip code (harness engine G,      *)
(* cmd/geng) against Gossip.tla.                                            *)
(*                                                                         *)
(* Every line of trace.ndjson is one call on the real nodes together with   *)
(* the state read back from them afterwards.  The step binds ALL state      *)
(* variables from the line (so the invariants below are evaluated on the    *)
(* implementation's state, not on the model's prediction - layer B) and     *)
(* evaluates the corresponding Gossip action as a predicate on the pair of  *)
(* observed states (refinement - layer A; a mismatch is counted in          *)
(* 'drift', never a verdict by itself).                                     *)
(*                                                                         *)
(* Ghost variables are maintained from the observed calls: 'written' from   *)
(* the owners' observed own states, 'expiredBy' from observed expiry        *)
(* announcements, 'f4taint' / 'relearned' from the signatures of the known  *)
(* findings F4 / F2 evaluated on the observed datagrams.                    *)
(***************************************************************************)
EXTENDS GossipObs, Json

Log == ndJsonDeserialize("trace.ndjson")

VARIABLES l, viol, drift, sig, ref,
          fold,   \* left fold of the logged watcher notifications (C14)
          rt,     \* the syncer/routing-table specification folded over the logged notifications
          obsrt,  \* pending set and routing table read from the real syncer + cluster.State (C04)
          dropped \* pairs <<o, n>> with the signature of known finding F5 (n left while pending at o)
tvars == <<vars, l, viol, drift, sig, ref, fold, rt, obsrt, dropped>>

-----------------------------------------------------------------------------
(* JSON -> spec values *)

EntOf(x) == [k |-> x.k, v |-> x.v, ver |-> x.ver, del |-> x.del, int |-> x.int, cv |-> x.cv]
EntSetOf(arr) == {EntOf(arr[i]) : i \in DOMAIN arr}
ViewOf(x) == [ver |-> x.ver, ents |-> EntSetOf(x.ents), left |-> x.left, unreach |-> x.unreach]
ViewsOf(arr) ==
  [n \in {arr[i].n : i \in DOMAIN arr} |->
     ViewOf(arr[CHOOSE i \in DOMAIN arr : arr[i].n = n])]

Pick(arr, o) == arr[CHOOSE i \in DOMAIN arr : arr[i].o = o]
Has_(arr, o) == \E i \in DOMAIN arr : arr[i].o = o

StOf(e, old) == [o \in Node |-> IF Has_(e.chg, o) THEN ViewsOf(Pick(e.chg, o).views) ELSE old[o]]
QOf(arr, old) == [o \in Node |-> IF Has_(arr, o) THEN Pick(arr, o).q ELSE old[o]]
SetQOf(arr, old) == [o \in Node |-> IF Has_(arr, o) THEN Range(Pick(arr, o).q) ELSE old[o]]

DigSeqOf(arr) == [i \in DOMAIN arr |-> [id |-> arr[i].id, ver |-> arr[i].ver, left |-> arr[i].left]]
DeltaOf(arr) ==
  [i \in DOMAIN arr |-> [id |-> arr[i].id,
                         ents |-> [j \in DOMAIN arr[i].ents |-> EntOf(arr[i].ents[j])]]]
MsgOf(m) == [t |-> m.t, from |-> m.from, to |-> m.to, req |-> m.req,
             dig |-> DigSeqOf(m.dig), d |-> DeltaOf(m.d), ans |-> DigSeqOf(m.ans)]
NetOf(arr) ==
  [s \in {arr[i].slot : i \in DOMAIN arr} |->
     MsgOf(arr[CHOOSE i \in DOMAIN arr : arr[i].slot = s])]
EvSeqOf(arr) == [i \in DOMAIN arr |-> [o |-> arr[i].o, t |-> arr[i].t, n |-> arr[i].n, k |-> arr[i].k, v |-> arr[i].v]]

RNodeOf(x) ==
  [status |-> x.status, proxy |-> x.proxy, admin |-> x.admin,
   eps |-> [k \in {x.eps[i].e : i \in DOMAIN x.eps} |->
              x.eps[CHOOSE i \in DOMAIN x.eps : x.eps[i].e = k].c]]
RMapOf(arr) ==
  [n \in {arr[i].n : i \in DOMAIN arr} |-> RNodeOf(arr[CHOOSE i \in DOMAIN arr : arr[i].n = n])]
ObsRTOf(tables, dflt) ==
  [o \in Node |-> IF Has_(tables, o)
                  THEN [table |-> RMapOf(Pick(tables, o).nodes), pend |-> RMapOf(Pick(tables, o).pending)]
                  ELSE dflt[o]]

InitSt == [o \in Node |-> [n \in {o} |-> EmptyView]]
EmptyQ == [o \in Node |-> <<>>]
EmptyS == [o \in Node |-> {}]

(* gossipRound (pkg/gossip/gossip.go): every period a node sends a digest request to one random live peer *)
(* (known, not left, not unreachable) and to one random unreachable peer (so that two healthy nodes that   *)
(* suspect each other still meet); never to itself, never to a peer that left and is not unreachable.     *)
LivePeers(a) == {n \in Known(a) \ {a} : ~st[a][n].left /\ ~st[a][n].unreach}
UnreachPeers(a) == {n \in Known(a) \ {a} : st[a][n].unreach}
PeerSelectionOK(a, ts) ==
  LET nl == IF LivePeers(a) = {} THEN 0 ELSE 1
      nu == IF UnreachPeers(a) = {} THEN 0 ELSE 1
  IN /\ Len(ts) = nl + nu
     /\ (nl = 1 => ts[1] \in LivePeers(a))
     /\ (nu = 1 => ts[nl + 1] \in UnreachPeers(a))

-----------------------------------------------------------------------------
(* Layer A: is the observed step an instance of the named spec action?     *)

AllSeqs == UNION {Perms(T) : T \in SUBSET Node}
\* the joining node builds its digest from a map: the engine logs the digest it read just before the call, the
\* one sent may name the same nodes in another order (the order is visible only in the order of the events)
DigOrders(ds) ==
  {[i \in DOMAIN ds |-> ds[CHOOSE j \in DOMAIN ds : ds[j].id = ord[i]]] : ord \in Perms({ds[j].id : j \in DOMAIN ds})}

CoreOK(e) ==
  CASE e.op = "UpsertLocal"    -> UpsertLocalCore(e.n, e.k, e.v)
    [] e.op = "DeleteLocal"    -> DeleteLocalCore(e.n, e.k)
    [] e.op = "LeaveLocal"     -> LeaveLocalCore(e.n)
    [] e.op = "CompactLocal"   -> CompactLocalCore(e.n, e.thr)
    [] e.op = "StartRound"     -> StartRoundCore(e.a, e.b, DigSeqOf(e.dseq))
    [] e.op = "RecvDigest"     -> RecvDigestCore(e.slot, e.keep, e.cut, DigSeqOf(e.rseq), e.sendEmpty)
    [] e.op = "RecvDelta"      -> RecvDeltaCore(e.slot, e.keep)
    [] e.op = "Lose"           -> LoseCore(e.slot)
    [] e.op = "JoinStream"     -> \E ds \in DigOrders(DigSeqOf(e.dseq)), fseq \in AllSeqs :
                                     JoinStreamCore(e.a, e.b, ds, fseq)
    [] e.op = "LeaveStream"    -> LeaveStreamCore(e.a, e.b)
    [] e.op = "SetSuspect"     -> SetSuspectCore(e.a, e.n, e.flag)
    [] e.op = "UpdateLiveness" -> UpdateLivenessCore(e.a, e.ord)
    [] e.op = "RemoveExpired"  -> RemoveExpiredCore(e.a, e.kx, e.ord)
    [] e.op = "Crash"          -> CrashCore(e.n)
    [] OTHER -> TRUE

\* expected notifications; the code announces the keys dropped by a compaction
\* marker in map order, so deletions are compared as a multiset
SpecEv(e) ==
  CASE e.op = "RecvDigest"     -> RecvDigestEv(e.slot)
    [] e.op = "RecvDelta"      -> RecvDeltaEv(e.slot)
    [] e.op = "LeaveStream"    -> LeaveStreamEv(e.a, e.b)
    [] e.op = "UpdateLiveness" -> UpdateLivenessEv(e.a, e.ord)
    [] e.op = "RemoveExpired"  -> RemoveExpiredEv(e.a, e.kx, e.ord)
    [] OTHER -> <<>>

Count(seq, x) == Cardinality({i \in DOMAIN seq : seq[i] = x})
LooseEq(x, y) ==
  /\ Len(x) = Len(y)
  /\ \A i \in DOMAIN x : (x[i].t # "del" \/ y[i].t # "del") => x[i] = y[i]
  /\ \A i \in DOMAIN x : Count(x, x[i]) = Count(y, x[i])

EvOK(e) ==
  IF e.op \in {"Reset", "Hostile"} THEN TRUE
  ELSE IF e.op = "JoinStream"
       THEN \E ds \in DigOrders(DigSeqOf(e.dseq)), fseq \in AllSeqs :
              /\ JoinStreamCore(e.a, e.b, ds, fseq)
              /\ LooseEq(EvSeqOf(e.evts), JoinStreamEv(e.a, e.b, ds, fseq))
       ELSE LooseEq(EvSeqOf(e.evts), SpecEv(e))

-----------------------------------------------------------------------------
(* Layer B: step properties evaluated on the observed pair of states        *)

\* (never prime an expression that mentions the log line: Log[l]' is the next line)
OwnNext(n) == st'[n][n]

LocalOps == {"UpsertLocal", "DeleteLocal", "LeaveLocal", "CompactLocal"}

\* C13: one call of the real encodeDelta / encodeDigest with maximum packet size
\* e.pktmax, measured element boundaries e.hdr / e.cum, and the real decoder's
\* reading of the produced datagram (Packet.tla is the model of the loop)
EncodeViolations(e) ==
  LET taken == FlatLen(DeltaOf(e.dec))
      n == Len(e.cum)
  IN (IF (e.err # "") # (e.pktmax < e.hdr) THEN {"HeaderError"} ELSE {})
     \cup (IF e.err = "" /\ e.outlen > e.pktmax THEN {"FitsBudget"} ELSE {})
     \cup (IF e.err = "" /\ e.outlen # (IF taken = 0 THEN e.hdr ELSE IF taken <= n THEN e.cum[taken] ELSE -2)
           THEN {"WholeElementsOnly"} ELSE {})
     \cup (IF e.err = "" /\ taken < n /\ e.cum[taken + 1] <= e.pktmax THEN {"LongestFittingPrefix"} ELSE {})
     \cup (IF e.err = "" /\ DeltaOf(e.dec) # Trunc(DeltaOf(e.d2), taken) THEN {"DecodeIsPrefix"} ELSE {})

EncodeDigestViolations(e) ==
  LET taken == Len(e.digdec)
      n == Len(e.cum)
  IN (IF (e.err # "") # (e.pktmax < e.hdr) THEN {"HeaderError"} ELSE {})
     \cup (IF e.err = "" /\ e.outlen > e.pktmax THEN {"FitsBudget"} ELSE {})
     \cup (IF e.err = "" /\ e.outlen # (IF taken = 0 THEN e.hdr ELSE IF taken <= n THEN e.cum[taken] ELSE -2)
           THEN {"WholeElementsOnly"} ELSE {})
     \cup (IF e.err = "" /\ taken < n /\ e.cum[taken + 1] <= e.pktmax THEN {"LongestFittingPrefix"} ELSE {})
     \cup (IF e.err = "" /\ taken <= Len(e.dig2) /\ DigSeqOf(e.digdec) # SubSeq(DigSeqOf(e.dig2), 1, taken)
           THEN {"DecodeIsPrefix"} ELSE {})

StepViolations(e) ==
  IF e.op = "Reset" THEN {}
  ELSE
    (IF \E n \in Node : OwnNext(n) # Own(n) /\ ~(e.op \in LocalOps /\ e.n = n)
       THEN {"OwnStateOnlyLocal"} ELSE {})
    \cup (IF ~VersionMonotoneStep THEN {"VersionMonotone"} ELSE {})
    \cup (IF ~LeftStickyStep THEN {"LeftSticky"} ELSE {})
    \cup (IF e.op \in {"RecvDigest"} /\
             \E i \in DOMAIN net[e.slot].dig :
                 /\ net[e.slot].dig[i].left
                 /\ net[e.slot].dig[i].id \notin Known(net[e.slot].to)
                 /\ net[e.slot].dig[i].id \in DOMAIN st'[net[e.slot].to]
          THEN {"LeftDigestNeverCreates"} ELSE {})
    \cup (IF e.op = "UpdateLiveness" /\
             \E n \in DOMAIN st'[e.a] \ {e.a} :
                ~st'[e.a][n].left /\ (st'[e.a][n].unreach # (n \in susp[e.a]))
          THEN {"LivenessApplied"} ELSE {})
    \cup (IF e.op = "RemoveExpired" /\
             \E i \in 1..e.thr : i <= Len(armq[e.a]) /\
                (armq[e.a][i] \in DOMAIN st'[e.a] \/
                 ~\E j \in DOMAIN e.evts : e.evts[j].t = "expired" /\ e.evts[j].n = armq[e.a][i])
          THEN {"ExpiryRemoves"} ELSE {})
    \cup (IF e.op = "RemoveExpired" /\ \E n \in Known(e.a) \ DOMAIN st'[e.a] :
                ~\E i \in 1..e.thr : i <= Len(armq[e.a]) /\ armq[e.a][i] = n
          THEN {"OnlyDueRemoved"} ELSE {})
    \cup (IF e.op = "ClosureEnd" /\ e.flag /\ ~ConvergedLive THEN {"Converged"} ELSE {})
    \cup (IF e.op = "ClosureEnd" /\ e.flag /\ ~ConvergedKnown THEN {"DepartureSpreads"} ELSE {})
    \cup (IF e.op = "ClosureEnd" /\ ~e.flag THEN {"ClosureBound"} ELSE {})
    \cup (IF e.op = "GossipRound" /\ ~PeerSelectionOK(e.a, e.fseq) THEN {"PeerSelection"} ELSE {})
    \cup (IF e.op = "SelectionEnd" /\ e.kx >= 200 /\ ~(LivePeers(e.a) \cup UnreachPeers(e.a) \subseteq Range(e.fseq))
          THEN {"PeerSelectionFair"} ELSE {})
    \cup (IF e.op = "RecvDelta" /\ ~PullProgressFor(e.slot) THEN {"PullProgress"} ELSE {})
    \cup (IF e.pktmax > 0 /\ e.op \notin {"Encode", "EncodeDigest"} /\
             \E i \in DOMAIN e.pktlens : e.pktlens[i] > e.pktmax
          THEN {"FitsBudget"} ELSE {})
    \cup (IF e.unord > 0 THEN {"EmittedInVersionOrder"} ELSE {})
    \cup (IF e.op = "Encode" THEN EncodeViolations(e) ELSE {})
    \cup (IF e.op = "EncodeDigest" THEN EncodeDigestViolations(e) ELSE {})
    \cup (IF e.op \notin {"RemoveExpired", "RaceExpiry"} /\ \E o \in Node : Known(o) \ DOMAIN st'[o] # {}
          THEN {"NoSilentRemoval"} ELSE {})
    \cup (IF ~FreshVersionStep THEN {"FreshVersionOnChange"} ELSE {})
    \cup (IF e.op \in {"UpsertLocal", "DeleteLocal"} /\ LiveMap(OwnNext(e.n)) = LiveMap(Own(e.n))
             /\ OwnNext(e.n) # Own(e.n)
          THEN {"NoVersionOnNoop"} ELSE {})
    \cup (IF \E i \in DOMAIN e.tables : \E j \in DOMAIN e.tables[i].lookup :
               LET lk == e.tables[i].lookup[j]
                   cand == LookupCandidates(obsrt'[e.tables[i].o], lk.e)
               IN (lk.n # "" /\ lk.n \notin cand) \/ (lk.n = "" /\ cand # {})
          THEN {"LookupSound"} ELSE {})
    \cup (IF e.op = "CompactLocal" /\ OwnNext(e.n) # Own(e.n) /\
             ~(/\ LiveMap(OwnNext(e.n)) = LiveMap(Own(e.n))
               /\ Tombstones(OwnNext(e.n)) = {}
               /\ LiveBefore(OwnNext(e.n)) = LiveBefore(Own(e.n))
               /\ OwnNext(e.n).left = Own(e.n).left)
          THEN {"CompactKeepsLive"} ELSE {})

-----------------------------------------------------------------------------
TraceInit ==
  /\ l = 1
  /\ viol = {}
  /\ drift = 0
  /\ sig = [f2 |-> 0, f4 |-> 0, f5 |-> 0]
  /\ st = InitSt /\ armq = EmptyQ /\ susp = EmptyS
  /\ alive = [n \in Node |-> TRUE]
  /\ net = <<>> /\ evts = <<>>
  /\ written = [n \in Node |-> {}]
  /\ expiredBy = EmptyS
  /\ f4taint = {} /\ relearned = {} /\ dropped = {}
  /\ ref = [n \in Node |-> <<>>]
  /\ obs = 0
  /\ fold = [o \in Node |-> EmptyFold]
  /\ rt = [o \in Node |-> EmptyRT]
  /\ obsrt = [o \in Node |-> EmptyRT]

\* the reference map of a node read from an observed own state (used at resets)
RefFromOwn(s) ==
  LET live == {e \in s.ents : ~e.del /\ ~e.int}
  IN [k \in {e.k : e \in live} |-> (CHOOSE e \in live : e.k = k).v]

NewOf(o) == DOMAIN st'[o] \ Known(o)

TraceNext ==
  /\ l <= Len(Log)
  /\ l' = l + 1
  /\ LET e == Log[l]
         reset == e.op = "Reset"
     IN /\ st' = StOf(e, IF reset THEN InitSt ELSE st)
        /\ armq' = QOf(e.armq, IF reset THEN EmptyQ ELSE armq)
        /\ susp' = SetQOf(e.susp, IF reset THEN EmptyS ELSE susp)
        /\ alive' = [n \in Node |-> \E i \in DOMAIN e.alive : e.alive[i] = n]
        /\ net' = NetOf(e.net)
        /\ evts' = EvSeqOf(e.evts)
        /\ written' = [n \in Node |-> (IF reset THEN {} ELSE written[n]) \cup st'[n][n].ents]
        /\ expiredBy' = IF reset THEN EmptyS
                        ELSE IF e.op \in {"RemoveExpired", "RaceExpiry"}
                             THEN [expiredBy EXCEPT ![e.a] = @ \cup Range(e.ord)]
                             ELSE expiredBy
        /\ f4taint' = IF reset THEN {}
                      ELSE IF e.op = "RecvDelta"
                           THEN f4taint \cup {<<net[e.slot].to, n>> : n \in F4Sig(net[e.slot].to, net[e.slot])}
                      ELSE IF e.op \in {"RemoveExpired", "RaceExpiry"}
                           THEN {p \in f4taint : ~(p[1] = e.a /\ p[2] \in Range(e.ord))}
                      ELSE f4taint
        /\ relearned' =
             IF reset THEN {}
             ELSE IF e.op \in {"RecvDigest", "RecvDelta"}
                  THEN LET o == net[e.slot].to IN relearned \cup {<<o, n>> : n \in F2Sig(o, NewOf(o))}
             ELSE IF e.op = "JoinStream"
                  THEN relearned \cup {<<e.a, n>> : n \in F2Sig(e.a, NewOf(e.a))}
                                 \cup {<<e.b, n>> : n \in F2Sig(e.b, NewOf(e.b))}
             ELSE IF e.op = "LeaveStream"
                  THEN relearned \cup {<<e.b, n>> : n \in F2Sig(e.b, NewOf(e.b))}
             ELSE IF e.op \in {"RemoveExpired", "RaceExpiry"}
                  THEN {p \in relearned : ~(p[1] = e.a /\ p[2] \in Range(e.ord))}
             ELSE relearned
        /\ ref' = IF reset THEN [n \in Node |-> RefFromOwn(st'[n][n])]
                  ELSE IF e.op = "UpsertLocal" THEN [ref EXCEPT ![e.n] = (e.k :> e.v) @@ @]
                  ELSE IF e.op = "DeleteLocal" THEN [ref EXCEPT ![e.n] = (e.k :> Absent) @@ @]
                  ELSE ref
        /\ obs' = 0
        /\ fold' = FoldAll(IF reset THEN [o \in Node |-> EmptyFold] ELSE fold, evts')
        /\ rt' = SyncAll(IF reset THEN [o \in Node |-> EmptyRT] ELSE rt, evts')
        /\ obsrt' = ObsRTOf(e.tables, rt')
        /\ dropped' = IF reset THEN {}
                      ELSE LET base == IF e.op \in {"RemoveExpired", "RaceExpiry"}
                                       THEN {p \in dropped : ~(p[1] = e.a /\ p[2] \in Range(e.ord))}
                                       ELSE dropped
                           from == IF reset THEN [o \in Node |-> EmptyRT] ELSE obsrt
                      IN base \cup UNION {{<<o, n>> : n \in LeftWhilePending(from[o], o, evts')} : o \in Node}
        /\ viol' = StepViolations(e)
        \* (RaceExpiry: an expiry sweep raced against an incoming delta by two goroutines; only the outcome is judged)
        /\ drift' = drift + (IF reset \/ e.op = "RaceExpiry" \/ (CoreOK(e) /\ EvOK(e)) THEN 0 ELSE 1)
                          + (IF obsrt' = rt' \/ e.op = "RaceExpiry" THEN 0 ELSE 1)
        /\ sig' = [f2 |-> sig.f2 + Cardinality(relearned' \ relearned),
                   f4 |-> sig.f4 + Cardinality(f4taint' \ f4taint),
                   f5 |-> sig.f5 + Cardinality(dropped' \ dropped)]

TraceSpec == TraceInit /\ [][TraceNext]_tvars

-----------------------------------------------------------------------------
NoStepViolation == viol = {}
\* a node only ever knows nodes that exist (evaluated first: the other invariants look the owner up)
OnlyRealNodes == \A o \in Node : DOMAIN st[o] \subseteq Node
MatchesRef == MatchesRefOf(ref)
FoldEqualsView == FoldEqualsViewOf(fold)
CaughtUpMirrors == CaughtUpMirrorsExcOf(obsrt, dropped)
\* without excusing known finding F5 (used to demonstrate it on the real code)
CaughtUpMirrorsNoF5 == CaughtUpMirrorsOf(obsrt)
CaughtUpMirrorsAll == CaughtUpMirrorsStrictOf(obsrt)
StatusTracks == StatusTracksOf(obsrt)
NoOrphans == NoOrphansOf(obsrt)
AllKnownTracked == AllKnownTrackedOf(obsrt)

\* the whole file was consumed; the counters are printed for the orchestrator
Consumed ==
  /\ PrintT(<<"TRACE-RESULT", TLCGet("stats").diameter - 1, Len(Log)>>)
  /\ TLCGet("stats").diameter - 1 = Len(Log)

\* reported, never a verdict: number of steps that are not spec steps, and how
\* often the known-finding signatures fired
DriftReport == l <= Len(Log) \/ PrintT(<<"TRACE-COUNTERS", drift, sig.f2, sig.f4, sig.f5>>)
\* development aid: stop at the first step that is not a spec step
NoDriftDbg == drift = 0

=============================================================================
