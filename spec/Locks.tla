--------------------------------- MODULE Locks ---------------------------------
(***************************************************************************)
(* C20: the lock protocol of a running node.  A "lock path" is what one    *)
(* goroutine does from taking its first mutex until it holds none: a       *)
(* sequence of Lock / RLock / Unlock / RUnlock on named mutexes.  The set   *)
(* of paths is NOT written by hand: it is what the instrumented            *)
(* implementation (mutex call sites of manager.go, cluster/state.go,       *)
(* syncer.go, gossip/state.go, failuredetector.go, upstream/server.go      *)
(* rewritten at check time) was observed to execute under stress in the    *)
(* same run.  Procs processes each execute any one of the paths; TLC's     *)
(* deadlock check then covers every combination and interleaving.          *)
(* Go's sync.RWMutex is writer-preferring: a pending Lock blocks new       *)
(* RLocks, so a recursive read lock behind a waiting writer blocks.        *)
(***************************************************************************)
EXTENDS Integers, Sequences, FiniteSets

CONSTANTS Paths,   \* sequence of paths; a path is a sequence of [op, lk]
          Procs    \* number of concurrent goroutines considered

VARIABLES path,     \* path[p] : index into Paths (chosen initially)
          pc,       \* pc[p]   : next operation
          writer,   \* writer[lk] : process holding the write lock, 0 if none
          readers,  \* readers[lk] : function process -> read holds
          pending   \* pending[lk] : processes blocked in Lock (they bar new readers)

vars == <<path, pc, writer, readers, pending>>

P == 1..Procs
LockNames == UNION {{Paths[i][j].lk : j \in DOMAIN Paths[i]} : i \in DOMAIN Paths}

Init ==
  /\ path \in [P -> DOMAIN Paths]
  /\ pc = [p \in P |-> 1]
  /\ writer = [l \in LockNames |-> 0]
  /\ readers = [l \in LockNames |-> [p \in P |-> 0]]
  /\ pending = [l \in LockNames |-> {}]

Done(p) == pc[p] > Len(Paths[path[p]])
Op(p) == Paths[path[p]][pc[p]]
NoReaders(l) == \A q \in P : readers[l][q] = 0

\* a goroutine arrives at Lock(): from now on new readers wait
Arrive(p) ==
  /\ ~Done(p) /\ Op(p).op = "Lock" /\ p \notin pending[Op(p).lk]
  /\ pending' = [pending EXCEPT ![Op(p).lk] = @ \cup {p}]
  /\ UNCHANGED <<path, pc, writer, readers>>

Lock(p) ==
  /\ ~Done(p) /\ Op(p).op = "Lock" /\ p \in pending[Op(p).lk]
  /\ writer[Op(p).lk] = 0 /\ NoReaders(Op(p).lk)
  /\ writer' = [writer EXCEPT ![Op(p).lk] = p]
  /\ pending' = [pending EXCEPT ![Op(p).lk] = @ \ {p}]
  /\ pc' = [pc EXCEPT ![p] = @ + 1]
  /\ UNCHANGED <<path, readers>>

RLock(p) ==
  /\ ~Done(p) /\ Op(p).op = "RLock"
  /\ writer[Op(p).lk] = 0 /\ pending[Op(p).lk] = {}
  /\ readers' = [readers EXCEPT ![Op(p).lk][p] = @ + 1]
  /\ pc' = [pc EXCEPT ![p] = @ + 1]
  /\ UNCHANGED <<path, writer, pending>>

Unlock(p) ==
  /\ ~Done(p) /\ Op(p).op = "Unlock"
  /\ writer' = [writer EXCEPT ![Op(p).lk] = 0]
  /\ pc' = [pc EXCEPT ![p] = @ + 1]
  /\ UNCHANGED <<path, readers, pending>>

RUnlock(p) ==
  /\ ~Done(p) /\ Op(p).op = "RUnlock"
  /\ readers' = [readers EXCEPT ![Op(p).lk][p] = IF @ > 0 THEN @ - 1 ELSE 0]
  /\ pc' = [pc EXCEPT ![p] = @ + 1]
  /\ UNCHANGED <<path, writer, pending>>

AllDone == (\A p \in P : Done(p)) /\ UNCHANGED vars

Next == (\E p \in P : Arrive(p) \/ Lock(p) \/ RLock(p) \/ Unlock(p) \/ RUnlock(p)) \/ AllDone
Spec == Init /\ [][Next]_vars

\* every operation completes in bounded time: no state in which some goroutine can never proceed
\* (TLC's deadlock check: every reachable state has a successor; AllDone stutters at the end)
MutualExclusion == \A l \in LockNames : writer[l] # 0 => NoReaders(l)
=============================================================================
