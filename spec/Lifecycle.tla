------------------------------ MODULE Lifecycle -------------------------------
(***************************************************************************)
(* C16: the life of upstream connections on one server node                *)
(*   server/upstream/server.go   upstreamRoute: upgrade, addSession,       *)
(*       AddConn, wait in AcceptStreamWithContext, deferred RemoveConn /   *)
(*       removeSession / Close; shedSessions; Shutdown (context cancel);   *)
(*       token deadline (context.WithDeadline)                             *)
(*   server/proxy/*.go           RemoveConn when Dial returns ErrGone      *)
(*   client/listener.go          Close = go-away, Shutdown = close         *)
(* One action per step of the handler, so that a connection can end for    *)
(* any cause while other connections, requests and the shutdown are at any *)
(* point.                                                                  *)
(***************************************************************************)
EXTENDS Integers, FiniteSets

CONSTANTS ConnE1, ConnE2,   \* connection identities per endpoint
          MaxClock,         \* discrete clock bound (token deadlines)
          DisableExpiry     \* disconnect-on-expiry disabled

Conn == ConnE1 \cup ConnE2
Ep(c) == IF c \in ConnE1 THEN "e1" ELSE "e2"
Eps == {"e1", "e2"}

VARIABLES
  cst,       \* cst[c] : "idle" | "open" | "goaway" | "ending" | "gone"
  reg,       \* upstreams registered with the manager
  sess,      \* sessions held by the upstream server
  adv,       \* adv[e] : count advertised to the cluster
  down,      \* the server is shutting down
  clock,
  deadline,  \* deadline[c] : token expiry (0 = none)
  why        \* why[c] : cause of the end of c ("" while alive)

vars == <<cst, reg, sess, adv, down, clock, deadline, why>>

Init ==
  /\ cst = [c \in Conn |-> "idle"]
  /\ reg = {} /\ sess = {}
  /\ adv = [e \in Eps |-> 0]
  /\ down = FALSE /\ clock = 0
  /\ deadline = [c \in Conn |-> 0]
  /\ why = [c \in Conn |-> ""]

\* the handler registers the connection (addSession, AddConn)
Connect(c, dl) ==
  /\ ~down /\ cst[c] = "idle"
  /\ (dl = 0 \/ dl > clock)          \* an expired token is refused by the middleware
  /\ cst' = [cst EXCEPT ![c] = "open"]
  /\ sess' = sess \cup {c}
  /\ reg' = reg \cup {c}
  /\ adv' = [adv EXCEPT ![Ep(c)] = @ + 1]
  /\ deadline' = [deadline EXCEPT ![c] = dl]
  /\ UNCHANGED <<down, clock, why>>

\* the client stops accepting (listener.Close -> yamux go-away); the connection stays open
GoAway(c) ==
  /\ cst[c] = "open"
  /\ cst' = [cst EXCEPT ![c] = "goaway"]
  /\ UNCHANGED <<reg, sess, adv, down, clock, deadline, why>>

\* a proxied request picks c; if it announced go-away the proxy removes it
ProxyDial(c) ==
  /\ c \in reg
  /\ IF cst[c] = "goaway"
     THEN reg' = reg \ {c} /\ adv' = [adv EXCEPT ![Ep(c)] = @ - 1]
     ELSE UNCHANGED <<reg, adv>>
  /\ UNCHANGED <<cst, sess, down, clock, deadline, why>>

\* the connection ends: AcceptStreamWithContext returns
End(c, cause) ==
  /\ cst[c] \in {"open", "goaway"}
  /\ cause \in {"client-close", "drop", "shed", "token-expiry", "shutdown"}
  /\ (cause = "token-expiry" => deadline[c] # 0 /\ clock >= deadline[c] /\ ~DisableExpiry)
  /\ (cause = "shutdown" => down)
  /\ cst' = [cst EXCEPT ![c] = "ending"]
  /\ why' = [why EXCEPT ![c] = cause]
  /\ UNCHANGED <<reg, sess, adv, down, clock, deadline>>

\* the deferred calls run: RemoveConn (a no-op if the proxy already removed it),
\* removeSession, session and connection close
HandlerExit(c) ==
  /\ cst[c] = "ending"
  /\ cst' = [cst EXCEPT ![c] = "gone"]
  /\ IF c \in reg THEN reg' = reg \ {c} /\ adv' = [adv EXCEPT ![Ep(c)] = @ - 1]
                  ELSE UNCHANGED <<reg, adv>>
  /\ sess' = sess \ {c}
  /\ UNCHANGED <<down, clock, deadline, why>>

Shutdown == ~down /\ down' = TRUE /\ UNCHANGED <<cst, reg, sess, adv, clock, deadline, why>>
Tick == clock < MaxClock /\ clock' = clock + 1 /\ UNCHANGED <<cst, reg, sess, adv, down, deadline, why>>

Next ==
  \/ \E c \in Conn, dl \in 0..MaxClock : Connect(c, dl)
  \/ \E c \in Conn : GoAway(c) \/ ProxyDial(c) \/ HandlerExit(c)
  \/ \E c \in Conn, cause \in {"client-close", "drop", "shed", "token-expiry", "shutdown"} : End(c, cause)
  \/ Shutdown \/ Tick

Fairness ==
  /\ \A c \in Conn : WF_vars(HandlerExit(c))
  /\ \A c \in Conn : WF_vars(End(c, "token-expiry"))
  /\ \A c \in Conn : WF_vars(End(c, "shutdown"))
  /\ WF_vars(Tick)
Spec == Init /\ [][Next]_vars /\ Fairness

-----------------------------------------------------------------------------
Alive(c) == cst[c] \in {"open", "goaway"}
CountOn(S, e) == Cardinality({c \in S : Ep(c) = e})

SessionsAreHandlers == sess = {c \in Conn : cst[c] \in {"open", "goaway", "ending"}}
RegSubsetSess == reg \subseteq sess
AdvMatchesReg == \A e \in Eps : adv[e] = CountOn(reg, e)
Quiescent == \A c \in Conn : cst[c] # "ending"
\* at quiescence the registry is the open connections (minus those that announced go-away and were dropped by the proxy)
RegistryIsOpenConns ==
  Quiescent => /\ reg \subseteq {c \in Conn : Alive(c)}
               /\ {c \in Conn : cst[c] = "open"} \subseteq reg
               /\ sess = {c \in Conn : Alive(c)}
AllGoneAdvertisesNothing ==
  (\A c \in Conn : cst[c] \in {"idle", "gone"}) => (reg = {} /\ sess = {} /\ \A e \in Eps : adv[e] = 0)
NotClosedBeforeExpiry ==
  \A c \in Conn : why[c] = "token-expiry" => (deadline[c] # 0 /\ clock >= deadline[c] /\ ~DisableExpiry)
\* a connection whose token expired is closed by the server
ClosedAtExpiry ==
  \A c \in Conn : (Alive(c) /\ deadline[c] # 0 /\ clock >= deadline[c] /\ ~DisableExpiry) ~> ~Alive(c)
\* after a shutdown every connection is released
ShutdownReleasesAll == down ~> (sess = {} /\ reg = {})
=============================================================================
