------------------------------ MODULE Lifecycle -------------------------------
(***************************************************************************)
(* C16: the life of upstream connections on one server node.               *)
(* One action per step of the code (LifecycleOps.tla holds the transition  *)
(* functions), so that a connection can end for any cause while other      *)
(* connections, requests and the shutdown are at any point: Spec.          *)
(* MacroSpec is the same system driven by the commands of the scenario     *)
(* driver (harness cmd/peng, mode c16): every command runs to quiescence.  *)
(* Its state graph is the source of the scenarios executed on a real node. *)
(***************************************************************************)
EXTENDS LifecycleOps

VARIABLES cst, acc, reg, sess, adv, down, clock, deadline, why
vars == <<cst, acc, reg, sess, adv, down, clock, deadline, why>>

S == [cst |-> cst, acc |-> acc, reg |-> reg, sess |-> sess, adv |-> adv, down |-> down, clock |-> clock,
      deadline |-> deadline, why |-> why]
Set(t) ==
  /\ cst' = t.cst /\ acc' = t.acc /\ reg' = t.reg /\ sess' = t.sess /\ adv' = t.adv
  /\ down' = t.down /\ clock' = t.clock /\ deadline' = t.deadline /\ why' = t.why

Init ==
  /\ cst = InitState.cst /\ acc = InitState.acc /\ reg = {} /\ sess = {} /\ adv = InitState.adv
  /\ down = FALSE /\ clock = 0 /\ deadline = InitState.deadline /\ why = InitState.why

Connect(c, dl) == ConnectOK(S, c, dl) /\ Set(ConnectF(S, c, dl))
GoAway(c) == GoAwayOK(S, c) /\ Set(GoAwayF(S, c))
ProxyDial(c) == DialOK(S, c) /\ Set(DialF(S, c))
End(c, cause) == EndOK(S, c, cause) /\ Set(EndF(S, c, cause))
HandlerExit(c) == ExitOK(S, c) /\ Set(ExitF(S, c))
Redial(c) == RedialOK(S, c) /\ Set(RedialF(S, c))
Shutdown == ~down /\ Set(ShutdownF(S))
Tick == clock < MaxClock /\ Set(TickF(S))

Next ==
  \/ \E c \in Conn, dl \in 0..MaxClock : Connect(c, dl)
  \/ \E c \in Conn : GoAway(c) \/ ProxyDial(c) \/ HandlerExit(c) \/ Redial(c)
  \/ \E c \in Conn, cause \in Causes : End(c, cause)
  \/ Shutdown \/ Tick

Fairness ==
  /\ \A c \in Conn : WF_vars(HandlerExit(c))
  /\ \A c \in Conn : WF_vars(End(c, "token-expiry"))
  /\ \A c \in Conn : WF_vars(End(c, "shutdown"))
  /\ WF_vars(Tick)
Spec == Init /\ [][Next]_vars /\ Fairness

-----------------------------------------------------------------------------
SessionsAreHandlers == SessionsAreHandlersP(S)
RegSubsetSess == RegSubsetSessP(S)
AdvMatchesReg == AdvMatchesRegP(S)
RegistryIsOpenConns == RegistryIsOpenConnsP(S)
AllGoneAdvertisesNothing == AllGoneAdvertisesNothingP(S)
NotClosedBeforeExpiry == NotClosedBeforeExpiryP(S)
Alive(c) == AliveIn(S, c)
\* a connection whose token expired is closed by the server
ClosedAtExpiry ==
  \A c \in Conn : (Alive(c) /\ deadline[c] # 0 /\ clock >= deadline[c] /\ ~DisableExpiry) ~> ~Alive(c)
\* after a shutdown every connection is released
ShutdownReleasesAll == down ~> (sess = {} /\ reg = {})

-----------------------------------------------------------------------------
(* The scenario driver's commands *)
DoListen(c) == ListenOK(S, c) /\ Set(ListenF(S, c))
DoGoAway(c) == GoAwayOK(S, c) /\ Set(GoAwayF(S, c))
DoClose(c) == EndOK(S, c, "client-close") /\ Set(FinishF(S, c, "client-close"))
DoDrop(c) == EndOK(S, c, "drop") /\ Set(FinishF(S, c, "drop"))
\* a request for e that the load balancer hands to c (the driver repeats the request until c is picked)
DoRequest(e, c) == c \in reg /\ Ep(c) = e /\ Set(DialF(S, c))
DoRequestNone(e) == (\A c \in reg : Ep(c) # e) /\ UNCHANGED vars
\* a request in flight on c while its connection is cut (only where no sibling announced go-away: the
\* driver could not tell which 502 it saw)
DoDropInflight(c) ==
  /\ cst[c] = "open" /\ c \in reg
  /\ \A o \in reg : Ep(o) = Ep(c) => cst[o] # "goaway"
  /\ Set(FinishF(S, c, "drop"))
\* shedding while every client would reconnect (any set of sessions)
DoShed == sess # {} /\ (\A c \in sess : acc[c]) /\ \E t \in ShedSucc(S) : Set(t)
DoStop == ~down /\ Set(StopF(S))

MacroNext ==
  \/ \E c \in Conn : DoListen(c) \/ DoGoAway(c) \/ DoClose(c) \/ DoDrop(c) \/ DoDropInflight(c)
  \/ \E e \in Eps, c \in Conn : DoRequest(e, c)
  \/ \E e \in Eps : DoRequestNone(e)
  \/ DoShed \/ DoStop
MacroSpec == Init /\ [][MacroNext]_vars
\* why is a history variable
MacroView == <<cst, acc, reg, sess, adv, down>>
\* every macro step ends in a quiescent state of Spec
MacroQuiescent == QuiescentP(S)
=============================================================================
