------------------------------ MODULE Publish -------------------------------
(***************************************************************************)
(* C05 at the grain of the critical sections: how a change of the upstream *)
(* registry reaches the gossip state.                                      *)
(*   server/upstream/manager.go  AddConn / RemoveConn: manager mutex,      *)
(*                               balancer, then cluster.State               *)
(*   server/cluster/state.go     Add/RemoveLocalEndpoint: count under the   *)
(*                               state's own mutex, subscribers called      *)
(*                               after it is released                       *)
(*   server/gossip/syncer.go     onLocalEndpointUpdate: read the count,     *)
(*                               then UpsertLocal / DeleteLocal; Sync:      *)
(*                               subscribe, snapshot, publish addresses,    *)
(*                               publish the snapshot                       *)
(*   server/server.go            Start: the upstream port is opened after   *)
(*                               gossip (and Sync) has started              *)
(* Upstreams.tla treats a call as one step; here a call is Lock, Reg,      *)
(* Tell, Read, Pub, Unlock, and Sync is five steps.  Reading the count and *)
(* publishing it are two steps, so publications of two calls can cross     *)
(* unless something orders them.  Three facts of the code are constants so *)
(* that TLC shows which of them the property rests on:                     *)
(*   HoldLock         cluster.State is told while the manager mutex is     *)
(*                    still held (the whole publication is inside it)      *)
(*   SubscribeFirst   Sync subscribes before it takes its snapshot         *)
(*   ListenAfterSync  no upstream connects before Sync has finished        *)
(* The code is TRUE/TRUE/TRUE.  One endpoint; every goroutine performs its *)
(* list of calls (add, or add followed by the removal of what it added).   *)
(***************************************************************************)
EXTENDS Integers, Sequences, FiniteSets, TLC

CONSTANTS Proc, Calls, HoldLock, SubscribeFirst, ListenAfterSync

NONE == "none"

\* call lists used by the configurations
CallsAdd == [p \in Proc |-> <<"add">>]
CallsMixed == [p \in Proc |-> IF p = "p1" THEN <<"add", "rm">> ELSE <<"add">>]

VARIABLES
  reg,        \* upstreams in the balancer
  count,      \* listeners recorded by cluster.State
  pub,        \* count in the gossip state (0: the key is absent or deleted)
  lock,       \* holder of the manager mutex
  pc, todo,   \* per goroutine: position in the current call, calls left
  rd,         \* per goroutine: the count its subscriber callback read
  subscribed, \* the syncer's callback is installed
  spc, snap   \* Sync: position, snapshot of the count

vars == <<reg, count, pub, lock, pc, todo, rd, subscribed, spc, snap>>

Init ==
  /\ reg = 0 /\ count = 0 /\ pub = 0 /\ lock = NONE
  /\ pc = [p \in Proc |-> "idle"] /\ todo = [p \in Proc |-> Calls[p]]
  /\ rd = [p \in Proc |-> 0]
  /\ subscribed = FALSE /\ spc = "init" /\ snap = 0

Cur(p) == Head(todo[p])
D(p) == IF Cur(p) = "add" THEN 1 ELSE -1

Lock(p) ==
  /\ pc[p] = "idle" /\ todo[p] # <<>> /\ lock = NONE
  /\ (ListenAfterSync => spc = "done")
  /\ lock' = p /\ pc' = [pc EXCEPT ![p] = "locked"]
  /\ UNCHANGED <<reg, count, pub, todo, rd, subscribed, spc, snap>>

\* the balancer changes; a registry that does not hold its lock any longer lets go here
Reg(p) ==
  /\ pc[p] = "locked"
  /\ reg' = reg + D(p)
  /\ pc' = [pc EXCEPT ![p] = "registered"]
  /\ lock' = IF HoldLock THEN lock ELSE NONE
  /\ UNCHANGED <<count, pub, todo, rd, subscribed, spc, snap>>

\* Add/RemoveLocalEndpoint: the count changes; the subscribers (if any) are called next
Tell(p) ==
  /\ pc[p] = "registered"
  /\ count' = count + D(p)
  /\ pc' = [pc EXCEPT ![p] = IF subscribed THEN "told" ELSE "published"]
  /\ UNCHANGED <<reg, pub, lock, todo, rd, subscribed, spc, snap>>

\* onLocalEndpointUpdate, first half: LocalEndpointListeners
Read(p) ==
  /\ pc[p] = "told"
  /\ rd' = [rd EXCEPT ![p] = count]
  /\ pc' = [pc EXCEPT ![p] = "read"]
  /\ UNCHANGED <<reg, count, pub, lock, todo, subscribed, spc, snap>>

\* second half: UpsertLocal(count) or DeleteLocal
Pub(p) ==
  /\ pc[p] = "read"
  /\ pub' = rd[p]
  /\ pc' = [pc EXCEPT ![p] = "published"]
  /\ UNCHANGED <<reg, count, lock, todo, rd, subscribed, spc, snap>>

Unlock(p) ==
  /\ pc[p] = "published"
  /\ lock' = IF HoldLock THEN NONE ELSE lock
  /\ pc' = [pc EXCEPT ![p] = "idle"]
  /\ todo' = [todo EXCEPT ![p] = Tail(@)]
  /\ UNCHANGED <<reg, count, pub, rd, subscribed, spc, snap>>

\* Sync
SSubscribe ==
  /\ spc = "init" /\ spc' = "snapshot"
  /\ subscribed' = SubscribeFirst
  /\ UNCHANGED <<reg, count, pub, lock, pc, todo, rd, snap>>
SSnapshot ==
  /\ spc = "snapshot" /\ snap' = count /\ spc' = "addresses"
  /\ UNCHANGED <<reg, count, pub, lock, pc, todo, rd, subscribed>>
SAddresses ==
  /\ spc = "addresses" /\ spc' = "endpoints"
  /\ UNCHANGED <<reg, count, pub, lock, pc, todo, rd, subscribed, snap>>
SEndpoints ==
  /\ spc = "endpoints" /\ spc' = "subscribe-late"
  /\ pub' = IF snap > 0 THEN snap ELSE pub
  /\ UNCHANGED <<reg, count, lock, pc, todo, rd, subscribed, snap>>
SEnd ==
  /\ spc = "subscribe-late" /\ spc' = "done"
  /\ subscribed' = TRUE
  /\ UNCHANGED <<reg, count, pub, lock, pc, todo, rd, snap>>

Next ==
  \/ \E p \in Proc : Lock(p) \/ Reg(p) \/ Tell(p) \/ Read(p) \/ Pub(p) \/ Unlock(p)
  \/ SSubscribe \/ SSnapshot \/ SAddresses \/ SEndpoints \/ SEnd

Spec == Init /\ [][Next]_vars /\ WF_vars(Next)

-----------------------------------------------------------------------------
Quiescent == spc = "done" /\ \A p \in Proc : pc[p] = "idle" /\ todo[p] = <<>>

\* C05: at quiescence what is advertised is what is registered
QuiescentCountsMatch == Quiescent => (count = reg /\ pub = count)
\* the count never disagrees with the balancer outside a call
CountFollowsRegistry == (\A p \in Proc : pc[p] = "idle") => count = reg
NoNegative == reg >= 0 /\ count >= 0 /\ pub >= 0
\* every call and Sync finish (nothing waits for ever)
Finishes == <>Quiescent
=============================================================================
