------------------------------- MODULE TraceP --------------------------------
(***************************************************************************)
(* Validation of requests sent through real in-process piko clusters       *)
(* (harness cmd/peng) against Proxy.tla.                                   *)
(*   Route lines (C06): the configuration (real upstream placement, the    *)
(*     beliefs injected into every node's routing table, entry node,       *)
(*     client-supplied forward header) and what was observed: status,      *)
(*     which node's upstream served the request, and the number of proxy   *)
(*     handler invocations on every node (piko_proxy_requests_total);      *)
(*     gone = nodes whose only upstream had sent go-away before the        *)
(*     request, dereg = those of them whose registry no longer lists the   *)
(*     endpoint afterwards.                                                *)
(*   Place / Churn lines (C01): the placement of upstreams of several      *)
(*     endpoints, the entry node, addressing mode and target endpoint, and *)
(*     the endpoint / upstream stamped by whoever served the request.      *)
(***************************************************************************)
EXTENDS Proxy, Json, TLC

Log == ndJsonDeserialize("trace.ndjson")

VARIABLES l, drift, viol
tvars == <<vars, l, drift, viol>>

SetOf(arr) == {arr[i] : i \in DOMAIN arr}

TraceInit ==
  /\ l = 1 /\ drift = 0 /\ viol = {}
  /\ has = {} /\ gone = {} /\ dereg = {} /\ rejoin = {} /\ bel = [n \in Node |-> {}] /\ up = {}
  /\ at = "" /\ fwd = FALSE /\ hops = 0 /\ runs = [n \in Node |-> 0]
  /\ outcome = "" /\ servedBy = "" /\ entry = "" /\ ext = "none"

BelOf(e) ==
  [n \in Node |-> IF \E i \in DOMAIN e.bel : e.bel[i].n = n
                  THEN SetOf(e.bel[CHOOSE i \in DOMAIN e.bel : e.bel[i].n = n].b) ELSE {}]
RunsOf(e) ==
  [n \in Node |-> IF \E i \in DOMAIN e.runs : e.runs[i].n = n
                  THEN e.runs[CHOOSE i \in DOMAIN e.runs : e.runs[i].n = n].c ELSE 0]

\* what Proxy.tla allows for this configuration
Possible(h, g, b, en, x) ==
  IF en \in h THEN {<<"served", en>>}
  ELSE IF en \in g \/ x = "forged" \/ b[en] = {} THEN {<<"502", "">>}
  ELSE {IF m \in h THEN <<"served", m>> ELSE <<"502", "">> : m \in b[en]}

PlacedFor(e, target) == {e.placed[i].u : i \in {j \in DOMAIN e.placed : e.placed[j].e = target}}

PlaceViolations(e) ==
  (IF e.servedE # "" /\ e.servedE # e.target THEN {"DeliveredToRightEndpoint"} ELSE {})
  \cup (IF e.settled /\ e.servedU # "" /\ e.servedU \notin PlacedFor(e, e.target) THEN {"DeliveredToRightEndpoint"} ELSE {})
  \cup (IF e.settled /\ (e.status = 200) # (PlacedFor(e, e.target) # {}) THEN {"SettledServes"} ELSE {})
  \cup (IF e.settled /\ e.servedE = "" /\ e.status # 502 THEN {"RefusedIs502"} ELSE {})
  \cup (IF ~e.settled /\ e.servedE = "" /\ e.status \notin {502, 504, -1, 0} THEN {"RefusedIsGatewayError"} ELSE {})
  \cup (IF e.status = 200 /\ e.servedE = "" THEN {"FabricatedSuccess"} ELSE {})

TraceNext ==
  /\ l <= Len(Log)
  /\ l' = l + 1
  /\ LET e == Log[l]
         route == e.op = "Route"
     IN /\ has' = IF route THEN SetOf(e.has) ELSE {}
        /\ gone' = IF route THEN SetOf(e.gone) ELSE {}
        /\ dereg' = IF route THEN SetOf(e.dereg) ELSE {}
        /\ rejoin' = IF route THEN SetOf(e.rejoin) ELSE {}
        /\ bel' = IF route THEN BelOf(e) ELSE [n \in Node |-> {}]
        /\ up' = IF route THEN SetOf(e.nodes) ELSE {}
        /\ entry' = IF route THEN e.entry ELSE ""
        /\ ext' = IF route THEN e.ext ELSE "none"
        /\ at' = "" /\ fwd' = FALSE
        /\ runs' = IF route THEN RunsOf(e) ELSE [n \in Node |-> 0]
        /\ hops' = IF route
                   THEN LET k == Cardinality({n \in Node : RunsOf(e)[n] > 0}) IN IF k > 0 THEN k - 1 ELSE 0
                   ELSE 0
        /\ outcome' = IF ~route THEN "" ELSE IF e.servedBy # "" THEN "served"
                      ELSE IF e.status = 502 THEN "502" ELSE "other"
        /\ servedBy' = IF route THEN e.servedBy ELSE ""
        /\ viol' = IF e.op \in {"Place", "Churn"} THEN PlaceViolations(e)
                   ELSE IF route /\ e.status = 200 /\ e.servedBy = "" THEN {"FabricatedSuccess"}
                   ELSE IF route /\ outcome' = "other" THEN {"OutcomeIsServedOr502"}
                   ELSE {}
        /\ drift' = drift + (IF route /\ <<outcome', servedBy'>> \notin Possible(has', gone', bel', entry', ext') THEN 1 ELSE 0)

TraceSpec == TraceInit /\ [][TraceNext]_tvars

NoStepViolation == viol = {}
\* on Route lines every handler that ran was the entry node's or the single node it forwarded to
EntryRuns == entry # "" => runs[entry] = 1
Consumed ==
  /\ PrintT(<<"TRACE-RESULT", TLCGet("stats").diameter - 1, Len(Log)>>)
  /\ TLCGet("stats").diameter - 1 = Len(Log)
DriftReport == l <= Len(Log) \/ PrintT(<<"TRACE-COUNTERS", drift, 0, 0>>)
=============================================================================
