-------------------------------- MODULE WsConn --------------------------------
(***************************************************************************)
(* C07: one direction of a tunnelled connection as pkg/websocket/conn.go   *)
(* implements it on top of WebSocket messages:                             *)
(*   Write(b)  sends one binary message holding b (possibly empty)         *)
(*   Read(b)   keeps the reader of the current message between calls;      *)
(*             returns up to len(b) bytes of it; drops the reader when the *)
(*             message is exhausted; skips empty messages; at the end of   *)
(*             the stream returns an error                                 *)
(* Bytes are identified by their offset in the stream.                     *)
(***************************************************************************)
EXTENDS Integers, Sequences

CONSTANTS Sizes,     \* message sizes a writer may use (contains 0)
          Bufs,      \* read buffer sizes (>= 1)
          MaxBytes,  \* bound on the bytes written (model only)
          MaxMsgs    \* bound on the messages queued (model only)

VARIABLES q,        \* sizes of the messages sent and not yet opened by the reader
          cur,      \* bytes left in the message whose reader is retained (-1: no reader)
          w, d,     \* bytes written / delivered so far
          closed,   \* the writer closed its end
          last      \* result of the last Read: [n, err]

vars == <<q, cur, w, d, closed, last>>

Init == q = <<>> /\ cur = -1 /\ w = 0 /\ d = 0 /\ closed = FALSE /\ last = [n |-> -1, err |-> FALSE]

Write(n) ==
  /\ ~closed /\ w + n <= MaxBytes /\ Len(q) < MaxMsgs
  /\ q' = Append(q, n) /\ w' = w + n
  /\ UNCHANGED <<cur, d, closed, last>>

Close == ~closed /\ closed' = TRUE /\ UNCHANGED <<q, cur, w, d, last>>

\* skip the empty messages at the head of the queue
RECURSIVE DropEmpty(_)
DropEmpty(s) == IF s # <<>> /\ Head(s) = 0 THEN DropEmpty(Tail(s)) ELSE s

\* the same as a function of the reader state: [ok, q, cur] after a Read(buf) that returned n > 0 bytes
ReadStep(qq, cc, buf, n) ==
  LET c0 == IF cc > 0 THEN cc ELSE -1
      q1 == IF c0 = -1 THEN DropEmpty(qq) ELSE qq
      c1 == IF c0 # -1 THEN c0 ELSE IF q1 # <<>> THEN Head(q1) ELSE -1
      q2 == IF c0 = -1 /\ q1 # <<>> THEN Tail(q1) ELSE q1
  IN IF c1 = -1 \/ n < 1 \/ n > buf \/ n > c1 THEN [ok |-> FALSE, q |-> qq, cur |-> cc]
     ELSE [ok |-> TRUE, q |-> q2, cur |-> (IF c1 - n = 0 THEN -1 ELSE c1 - n)]

\* Read(buf) returns n bytes, 1 <= n <= min(buf, bytes left in the current message)
Read(buf, n) ==
  LET c0 == IF cur > 0 THEN cur ELSE -1                 \* an exhausted reader is dropped
      q1 == IF c0 = -1 THEN DropEmpty(q) ELSE q
      c1 == IF c0 # -1 THEN c0 ELSE IF q1 # <<>> THEN Head(q1) ELSE -1
      q2 == IF c0 = -1 /\ q1 # <<>> THEN Tail(q1) ELSE q1
  IN IF c1 = -1
     THEN \* nothing to read: blocks unless the stream ended
          /\ closed /\ n = 0
          /\ last' = [n |-> 0, err |-> TRUE]
          /\ q' = q1 /\ cur' = -1 /\ UNCHANGED <<w, d, closed>>
     ELSE /\ n >= 1 /\ n <= buf /\ n <= c1
          /\ last' = [n |-> n, err |-> FALSE]
          /\ q' = q2 /\ cur' = (IF c1 - n = 0 THEN -1 ELSE c1 - n)
          /\ d' = d + n /\ UNCHANGED <<w, closed>>

Next ==
  \/ \E n \in Sizes : Write(n)
  \/ Close
  \/ \E buf \in Bufs, n \in 0..MaxBytes : Read(buf, n)

Spec == Init /\ [][Next]_vars /\ WF_vars(\E buf \in Bufs, n \in 0..MaxBytes : Read(buf, n))

-----------------------------------------------------------------------------
RECURSIVE SumSeq(_)
SumSeq(s) == IF s = <<>> THEN 0 ELSE Head(s) + SumSeq(Tail(s))

\* every byte written is either delivered, in the retained message, or in a queued message: none lost, none twice
Conservation == w = d + (IF cur > 0 THEN cur ELSE 0) + SumSeq(q)
NeverZeroWithoutError == last.n = 0 => last.err
ErrorOnlyAtEndOfStream == last.err => (closed /\ d = w)
AllDeliveredEventually == <>[](d = w)
=============================================================================
