------------------------------- MODULE Routing ------------------------------
(***************************************************************************)
(* C04: the routing table (server/cluster/state.go) that the syncer        *)
(* (server/gossip/syncer.go) builds from the gossip notifications mirrors   *)
(* what each owner publishes.                                               *)
(*                                                                         *)
(* Owner side as the code has it: Sync() publishes proxy_addr then         *)
(* admin_addr (versions 1 and 2) before anything else; every change of a   *)
(* local endpoint's listener count publishes "endpoint:<id>" = count, or   *)
(* deletes the key when the count reaches 0 (onLocalEndpointUpdate).       *)
(* Run with  ObsInit <- InitRTOf,  ObsUpdate <- SyncAll  so that obs is    *)
(* the pending set and routing table of every node.                        *)
(***************************************************************************)
EXTENDS GossipObs

CONSTANTS EpUsed, MaxCount

ProxyOf(n) == "proxy-" \o n
AdminOf(n) == "admin-" \o n

CountStr(c) ==
  CASE c = 0 -> "0" [] c = 1 -> "1" [] c = 2 -> "2" [] c = 3 -> "3" [] c = 4 -> "4" [] OTHER -> "5"

OwnBoot(n) ==
  [ver |-> 2,
   ents |-> {Ent(PROXY, ProxyOf(n), 1, FALSE, FALSE, 0), Ent(ADMIN, AdminOf(n), 2, FALSE, FALSE, 0)},
   left |-> FALSE, unreach |-> FALSE]

RInit ==
  /\ st = [o \in Node |-> [n \in (IF InitKnown THEN Node ELSE {o}) |->
                              IF n = o THEN OwnBoot(o) ELSE EmptyView]]
  /\ armq = [o \in Node |-> <<>>]
  /\ alive = [n \in Node |-> TRUE]
  /\ susp = [o \in Node |-> {}]
  /\ net = <<>>
  /\ evts = <<>>
  /\ written = [n \in Node |-> OwnBoot(n).ents]
  /\ expiredBy = [o \in Node |-> {}]
  /\ f4taint = {}
  /\ relearned = {}
  /\ obs = ObsInit(st)

Listeners(n, k) == IF LiveOf(Own(n), k) = {} THEN 0 ELSE CountOf(LiveVal(Own(n), k))

\* AddLocalEndpoint / RemoveLocalEndpoint + onLocalEndpointUpdate
DoAddEndpoint(n, k) ==
  /\ Listeners(n, k) < MaxCount
  /\ UpsertLocal(n, k, CountStr(Listeners(n, k) + 1))

DoRemoveEndpoint(n, k) ==
  /\ Listeners(n, k) > 0
  /\ IF Listeners(n, k) = 1 THEN DeleteLocal(n, k)
                            ELSE UpsertLocal(n, k, CountStr(Listeners(n, k) - 1))

RWrites ==
  \/ \E n \in Writers, k \in EpUsed : DoAddEndpoint(n, k)
  \/ \E n \in Writers, k \in EpUsed : DoRemoveEndpoint(n, k)

RNext == RWrites \/ NextOther

RSpec == RInit /\ [][RNext]_vars

CaughtUpMirrors == CaughtUpMirrorsOf(obs)
StatusTracks == StatusTracksOf(obs)
NoOrphans == NoOrphansOf(obs)
AllKnownTracked == AllKnownTrackedOf(obs)
\* a node is pending only while one of its addresses is missing
PendingOnlyWhileIncomplete ==
  \A o \in Node : \A n \in DOMAIN obs[o].pend : obs[o].pend[n].proxy = "" \/ obs[o].pend[n].admin = ""
=============================================================================
